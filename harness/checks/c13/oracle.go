package main

// Offline oracle over the event log of one run. All statements are about the ORDER of counted events
// (ticks, broadcast rounds, merges, section begin/commit/abort, reads); no durations.
//
// Model per node r (everything keyed by update ids — every write of a run is identifiable in every state):
//   inflight_r   ids written by the section currently open at r            (H5 "write", under the state lock)
//   K_r          ids r must know: its own committed writes plus every committed id contained in a payload
//                for which r emitted `merged`                               (H5 "commit"/"merged", under the lock)
// Checks:
//   (i)   every payload r sends (broadcast round or ReceiveValue reply) ⊆ K_r, contains nothing of inflight_r
//         and nothing aborted anywhere;
//   (ii)  every read of a section of r that commits, and the final read, contains K_r as of the call of the
//         read (plus the section's own earlier writes) and nothing outside K_r/inflight_r as of its return;
//   (iii) a committed update of s has been dispatched towards every connected peer p (a send s'→p or a reply
//         s'→p whose payload contains it was issued by anyone, or p already merged it) before the
//         (tickBound+1)-th tick of s after the commit;
//   (iv)  at quiescence: nothing received stays unmerged, every final read equals the set of all committed updates.

import (
	"fmt"
	"sort"
	"strconv"
	"strings"
)

type Finding struct {
	Key    string         `json:"key"`
	Desc   string         `json:"desc"`
	Detail map[string]any `json:"detail"`
}

type Stats struct {
	Events, Ticks, Rounds, RoundsSkipped, Sends, Merges, MergesInSection int
	Sections, SecWrite, SecCommitW, SecAbortW                            int
	HeldCommit, HeldAbort                                                int // >=1 tick and >=1 merge between first write and outcome
	RoundInSecCommit                                                     int // a broadcast round started between write and commit
	MergeInSecAbort                                                      int // a merge arrived during a writing section that aborted
	CommitDuringRound                                                    int // commit while a broadcast round of the node was in flight
	PayloadsChecked, ReadsJudged, ReadsDiscarded                         int
	Obligations, ObligationsDecided                                      int
	FinalReads                                                           int
	ConvergenceJudged                                                    bool
	Quiesced, End                                                        string
	FailedSends                                                          int
	OriginStoppedEarly                                                   int // committed updates whose node stopped before the tick bound elapsed: delivery not judged
	StallUs                                                              int64
	Harness                                                              []string
}

type secInfo struct {
	idx              int
	firstWrite       int64
	ids              []string
	ticks, merges    int
	roundIn          bool // a round started while the section had writes
	roundOpenAtWrite bool // a round was in flight when the section first wrote
	reads            []readJ
	start            int64
}

type readJ struct {
	seq         int64
	rd          *ReadObs
	lost, extra []string
	deficit     int
	surplus     int
	lowerSet    map[string]bool // unit coding with a deficit: the candidates
}

type mergeRec struct {
	seq int64
	sec int
}

type oblig struct {
	ids        []string
	commitSeq  int64
	firstWrite int64
	ticks      int
	sec        *secInfo
	roundAtCom bool
	rounds     int // broadcast rounds the node started after the commit
	roundsWith int // ... whose payload contained the committed updates
	zeroTicks  int // ticks after the commit that found needBroadcastCount == 0
}

type nodeM struct {
	K, leaked    map[string]bool
	inflight     []string
	pendingW     []string
	sec          *secInfo
	secIdx       int
	outcomes     map[int]string
	secRange     map[int][2]int64
	merges       map[string][]mergeRec
	commitsN     int
	roundOpen    bool
	roundPayload []string
	obligs       []*oblig
	lower        map[string]bool
	queued       int
	merged       int
	ticksSinceQ  int
	closed       bool
	failedTo     map[int]int64 // peer -> sequence number of the latest failed or timed-out send to it
	dispatched   map[string]bool
}

type orc struct {
	c          Case
	evs        []Ev
	pos        int
	nodes      []*nodeM
	committed  map[string]int64
	aborted    map[string]bool
	origin     map[string]int
	explained  []map[string]bool // per node: ids whose absence there is already attributed to a reported violation
	excused    map[string]bool   // ids whose origin stopped before the tick bound after their commit had elapsed
	findings   []Finding
	seen       map[string]bool
	st         Stats
	quiescedOK bool
}

func idsOf(coding string, p *Payload) []string {
	var out []string
	if p == nil {
		return out
	}
	switch coding {
	case "bit":
		for _, c := range p.G {
			for b := 0; b < 62; b++ {
				if c&(int64(1)<<b) != 0 {
					out = append(out, "b"+strconv.Itoa(b))
				}
			}
		}
	case "unit":
		for n, c := range p.G {
			for j := int64(1); j <= c && j < 1000; j++ {
				out = append(out, "n"+n+"#"+strconv.FormatInt(j, 10))
			}
		}
	case "elem":
		seen := map[int]bool{}
		for _, e := range p.A {
			seen[e] = true
			out = append(out, "A"+strconv.Itoa(e))
		}
		for _, e := range p.R {
			if !seen[e] {
				out = append(out, "A"+strconv.Itoa(e))
			}
			out = append(out, "R"+strconv.Itoa(e))
		}
	}
	sort.Strings(out)
	return out
}

func setOf(ids []string) map[string]bool {
	m := make(map[string]bool, len(ids))
	for _, i := range ids {
		m[i] = true
	}
	return m
}

func sorted(m map[string]bool) []string {
	out := make([]string, 0, len(m))
	for k := range m {
		out = append(out, k)
	}
	sort.Strings(out)
	return out
}

func (o *orc) add(key, desc string, detail map[string]any) {
	if o.seen[key] {
		return
	}
	o.seen[key] = true
	detail["engine"] = o.c.Engine
	detail["coding"] = o.c.Coding
	detail["nodes"] = o.c.Nodes
	detail["case_idx"] = o.c.Idx
	o.findings = append(o.findings, Finding{Key: "C13:" + key, Desc: desc, Detail: detail})
}

// excerpt renders the events that involve node n between two sequence numbers (at most limit lines).
func (o *orc) excerpt(n int, from, to int64, limit int) []string {
	var out []string
	for i := range o.evs {
		e := &o.evs[i]
		if e.Seq < from {
			continue
		}
		if e.Seq > to {
			break
		}
		if e.N != n && !(e.P == n && (e.K == "send" || e.K == "sdone")) {
			continue
		}
		if e.K == "rcall" || e.K == "wcall" || e.K == "queued" {
			continue
		}
		out = append(out, o.render(e))
	}
	if len(out) > limit {
		h := limit / 2
		out = append(append(append([]string{}, out[:h]...), fmt.Sprintf("… %d events omitted …", len(out)-2*h)), out[len(out)-h:]...)
	}
	return out
}

func (o *orc) render(e *Ev) string {
	var sb strings.Builder
	fmt.Fprintf(&sb, "#%d n%d %s", e.Seq, e.N, e.K)
	if e.P != 0 {
		fmt.Fprintf(&sb, " peer=n%d", e.P)
	}
	switch e.K {
	case "tick":
		fmt.Fprintf(&sb, " need=%d", e.Need)
	case "sdone":
		fmt.Fprintf(&sb, " ok=%v", e.OK)
	case "merged", "h.abort":
		fmt.Fprintf(&sb, " section_open=%v", e.In)
	}
	if e.V != nil {
		fmt.Fprintf(&sb, " %v", idsOf(o.c.Coding, e.V))
	}
	if e.Old != nil {
		fmt.Fprintf(&sb, " restored=%v", idsOf(o.c.Coding, e.Old))
	}
	if e.Rd != nil {
		if e.Rd.Num != nil {
			fmt.Fprintf(&sb, " read=%d", *e.Rd.Num)
		} else {
			fmt.Fprintf(&sb, " read=%v", e.Rd.Set)
		}
	}
	if e.X != "" {
		sb.WriteString(" " + e.X)
	}
	return sb.String()
}

func (o *orc) harness(format string, a ...any) {
	if len(o.st.Harness) < 10 {
		o.st.Harness = append(o.st.Harness, fmt.Sprintf(format, a...))
	}
}

// judge compares a read with the lower/upper knowledge bounds.
func (o *orc) judge(lower, upper map[string]bool, rd *ReadObs) (j readJ) {
	j.rd = rd
	switch o.c.Coding {
	case "bit":
		if rd.Num == nil {
			j.extra = []string{"?non-numeric read"}
			return
		}
		got := map[string]bool{}
		for b := 0; b < 62; b++ {
			if *rd.Num&(int64(1)<<b) != 0 {
				got["b"+strconv.Itoa(b)] = true
			}
		}
		for id := range lower {
			if !got[id] {
				j.lost = append(j.lost, id)
			}
		}
		for id := range got {
			if !upper[id] {
				j.extra = append(j.extra, id)
			}
		}
	case "unit":
		if rd.Num == nil {
			j.extra = []string{"?non-numeric read"}
			return
		}
		if d := len(lower) - int(*rd.Num); d > 0 {
			j.deficit = d
		}
		if s := int(*rd.Num) - len(upper); s > 0 {
			j.surplus = s
		}
	case "elem":
		if rd.Num != nil {
			j.extra = []string{"?numeric read"}
			return
		}
		got := map[int]bool{}
		for _, e := range rd.Set {
			got[e] = true
			if !upper["A"+strconv.Itoa(e)] {
				j.extra = append(j.extra, "A"+strconv.Itoa(e))
			}
		}
		for id := range lower {
			e, _ := strconv.Atoi(id[1:])
			switch id[0] {
			case 'A':
				if !got[e] && !upper["R"+id[1:]] {
					j.lost = append(j.lost, id)
				}
			case 'R':
				if got[e] {
					j.lost = append(j.lost, id)
				}
			}
		}
	}
	sort.Strings(j.lost)
	sort.Strings(j.extra)
	return
}

// onlyViaAbortedSection: every merge that brought id to node n happened while a writing section was open
// that subsequently aborted.
func (o *orc) onlyViaAbortedSection(n int, id string, before int64) bool {
	nm := o.nodes[n]
	seen := false
	for _, m := range nm.merges[id] {
		if m.seq > before {
			break
		}
		seen = true
		if m.sec < 0 || nm.outcomes[m.sec] != "abort" {
			return false
		}
	}
	return seen
}

func (o *orc) reportRead(n int, j readJ, lowerAll map[string]bool, what string) {
	nm := o.nodes[n]
	if len(j.lost) > 0 || j.deficit > 0 {
		own, viaAbort, other := []string{}, []string{}, []string{}
		cands := j.lost
		if o.c.Coding == "unit" {
			if lowerAll == nil {
				lowerAll = j.lowerSet
			}
			cands = sorted(lowerAll)
		}
		for _, id := range cands {
			switch {
			case o.origin[id] == n:
				own = append(own, id)
			case o.onlyViaAbortedSection(n, id, j.seq):
				viaAbort = append(viaAbort, id)
			default:
				other = append(other, id)
			}
		}
		key, desc := "", ""
		switch {
		case o.c.Coding == "unit" && len(viaAbort) >= j.deficit, o.c.Coding != "unit" && len(own) == 0 && len(other) == 0:
			key = "peer-state-lost:merged-during-open-section-then-abort"
			desc = "state received from a peer and merged while a writing section was open is gone after that section aborted: a later " + what + " of the node lacks it"
		case o.c.Coding != "unit" && len(own) > 0:
			key = "own-committed-update-lost"
			desc = "a " + what + " lacks an update the node itself committed earlier"
		default:
			key = "peer-state-lost:other"
			desc = "a " + what + " lacks an update for which the node had emitted `merged` earlier"
		}
		det := map[string]any{"node": n, "read_seq": j.seq, "read": j.rd, "lost": j.lost, "deficit": j.deficit,
			"lost_only_via_merges_in_aborted_sections": viaAbort, "lost_own": own, "lost_other": other}
		// show the aborted section through which the first lost id had arrived
		for _, id := range append(append([]string{}, viaAbort...), other...) {
			if ms := nm.merges[id]; len(ms) > 0 {
				m := ms[0]
				from, to := m.seq-1, j.seq
				if r, ok := nm.secRange[m.sec]; ok {
					from = r[0]
					if r[1] > 0 && r[1]+40 < to {
						det["later_read_excerpt"] = o.excerpt(n, j.seq-6, j.seq, 12)
						to = r[1] + 2
					}
				}
				det["example_id"] = id
				det["example_merge_seq"] = m.seq
				det["excerpt"] = o.excerpt(n, from, to, 60)
				break
			}
		}
		for _, id := range j.lost {
			o.explained[n][id] = true
		}
		if o.c.Coding == "unit" {
			for _, id := range viaAbort {
				o.explained[n][id] = true
			}
		}
		o.add(key, desc, det)
	}
	if len(j.extra) > 0 || j.surplus > 0 {
		ab, infl := []string{}, []string{}
		for _, id := range j.extra {
			if _, c := o.committed[id]; c {
				continue
			}
			if o.aborted[id] {
				ab = append(ab, id)
			} else if _, ok := o.origin[id]; ok {
				infl = append(infl, id)
			}
		}
		key, desc := "read-exceeds-known-state", "a "+what+" contains an update the node neither committed nor merged"
		if len(ab) > 0 {
			key, desc = "aborted-update-visible:read", "a "+what+" contains an update of a section that aborted"
		} else if len(infl) > 0 {
			key, desc = "inflight-update-visible:read", "a "+what+" contains an update of a section (of another node) that has not committed"
		}
		o.add(key, desc, map[string]any{"node": n, "read_seq": j.seq, "read": j.rd, "extra": j.extra, "surplus": j.surplus,
			"extra_aborted": ab, "extra_inflight": infl, "excerpt": o.excerpt(n, j.seq-30, j.seq, 40)})
	}
}

func (o *orc) checkPayload(n int, e *Ev) {
	nm := o.nodes[n]
	o.st.PayloadsChecked++
	if e.V != nil && e.V.Err != "" {
		o.harness("payload of #%d undecodable: %s", e.Seq, e.V.Err)
		return
	}
	var infl, ab, exc []string
	inflight := setOf(nm.inflight)
	for _, id := range idsOf(o.c.Coding, e.V) {
		switch {
		case nm.K[id]:
		case inflight[id]:
			infl = append(infl, id)
		case o.aborted[id] && o.committed[id] == 0:
			ab = append(ab, id)
		default:
			exc = append(exc, id)
		}
	}
	kind := "broadcast"
	if e.K == "reply" {
		kind = "reply"
	}
	det := func(ids []string) map[string]any {
		from := e.Seq - 40
		if nm.sec != nil && nm.sec.firstWrite > 0 && nm.sec.firstWrite < from {
			from = nm.sec.firstWrite
		}
		return map[string]any{"node": n, "seq": e.Seq, "payload_kind": kind, "payload": idsOf(o.c.Coding, e.V), "offending": ids,
			"excerpt": o.excerpt(n, from, e.Seq, 50)}
	}
	if len(infl) > 0 {
		o.add("inflight-update-in-payload:"+kind, "a "+kind+" payload contains an update of the section that is still open at the sender", det(infl))
	}
	if len(ab) > 0 {
		o.add("aborted-update-in-payload:"+kind, "a "+kind+" payload contains an update of a section that aborted", det(ab))
	}
	if len(exc) > 0 {
		o.add("payload-exceeds-committed-state:"+kind, "a "+kind+" payload contains an update the sender neither committed nor merged", det(exc))
	}
}

func (o *orc) newSection(nm *nodeM, seq int64) {
	nm.secIdx++
	nm.sec = &secInfo{idx: nm.secIdx, start: seq}
	nm.inflight = nil
}

func (o *orc) endSection(n int, e *Ev, outcome string) {
	nm := o.nodes[n]
	s := nm.sec
	o.st.Sections++
	nm.outcomes[s.idx] = outcome
	from := s.firstWrite
	if from == 0 {
		from = s.start
	}
	nm.secRange[s.idx] = [2]int64{from, e.Seq}
	wrote := len(nm.inflight) > 0
	if outcome == "abort" && e.In != wrote {
		o.harness("section bookkeeping of node %d disagrees with the resource at #%d (hasOldValue=%v, writes seen=%d)", n, e.Seq, e.In, len(nm.inflight))
	}
	if wrote {
		o.st.SecWrite++
		held := s.ticks >= 1 && s.merges >= 1
		if outcome == "commit" {
			o.st.SecCommitW++
			if held {
				o.st.HeldCommit++
			}
			if s.roundIn {
				o.st.RoundInSecCommit++
			}
			if nm.roundOpen {
				o.st.CommitDuringRound++
			}
			for _, id := range nm.inflight {
				o.committed[id] = e.Seq
				nm.K[id] = true
				nm.commitsN++
			}
			nm.obligs = append(nm.obligs, &oblig{ids: append([]string{}, nm.inflight...), commitSeq: e.Seq, firstWrite: s.firstWrite, sec: s, roundAtCom: nm.roundOpen})
			o.st.Obligations++
		} else {
			o.st.SecAbortW++
			if held {
				o.st.HeldAbort++
			}
			if s.merges > 0 {
				o.st.MergeInSecAbort++
			}
			for _, id := range nm.inflight {
				o.aborted[id] = true
			}
		}
	}
	if outcome == "commit" {
		for _, j := range s.reads {
			o.st.ReadsJudged++
			o.reportRead(n, j, nil, "read of a committed section")
		}
	} else {
		o.st.ReadsDiscarded += len(s.reads)
	}
	o.newSection(nm, e.Seq)
}

func (o *orc) onTick(n int, e *Ev) {
	nm := o.nodes[n]
	o.st.Ticks++
	nm.ticksSinceQ++
	if len(nm.inflight) > 0 {
		nm.sec.ticks++
	}
	keep := nm.obligs[:0]
	for _, ob := range nm.obligs {
		ob.ticks++
		if e.Need == 0 && ob.ticks <= tickBound {
			ob.zeroTicks++
		}
		if ob.ticks <= tickBound {
			keep = append(keep, ob)
			continue
		}
		// the (tickBound+1)-th tick after the commit: decide
		o.st.ObligationsDecided++
		missing := map[string][]string{}
		for p := 1; p <= o.c.Nodes; p++ {
			// "connected": no send of this node to p failed or timed out since the commit, and p is still up
			if p == n || nm.failedTo[p] > ob.commitSeq || o.nodes[p].closed {
				continue
			}
			pm := o.nodes[p]
			for _, id := range ob.ids {
				if !pm.dispatched[id] && !pm.K[id] {
					missing["n"+strconv.Itoa(p)] = append(missing["n"+strconv.Itoa(p)], id)
					o.explained[p][id] = true
				}
			}
		}
		if len(missing) == 0 {
			continue
		}
		// shape of the witness: what did the node do in the tickBound ticks after the commit?
		shape := ""
		switch {
		case ob.rounds == 0 && ob.zeroTicks == tickBound:
			// every tick found the counter at zero: something used up (or never set up) the debt of this commit
			shape = "counter-zero-after-commit:"
			switch {
			case ob.sec.roundIn:
				shape += "stale-round-between-write-and-commit"
			case ob.sec.roundOpenAtWrite || ob.roundAtCom:
				shape += "stale-round-in-flight-at-write-or-commit"
			default:
				shape += "no-stale-round-seen"
			}
		case ob.rounds == 0:
			shape = "no-round-although-counter-positive"
		case ob.roundsWith == 0:
			shape = "rounds-carry-payload-without-the-update"
		default:
			shape = "round-without-send-to-peer"
		}
		o.add("committed-update-not-broadcast:"+shape,
			fmt.Sprintf("%d ticks of the committing node passed after a commit without any payload containing the committed update being sent towards a connected peer", tickBound+1),
			map[string]any{"node": n, "updates": ob.ids, "first_write_seq": ob.firstWrite, "commit_seq": ob.commitSeq, "decided_at_tick_seq": e.Seq,
				"never_dispatched_to": missing, "round_started_between_write_and_commit": ob.sec.roundIn,
				"round_in_flight_at_first_write": ob.sec.roundOpenAtWrite, "round_in_flight_at_commit": ob.roundAtCom,
				"rounds_started_after_commit": ob.rounds, "of_which_payload_contained_the_updates": ob.roundsWith, "ticks_after_commit_with_counter_zero": ob.zeroTicks,
				"excerpt": o.excerpt(n, ob.firstWrite-3, e.Seq, 70)})
	}
	nm.obligs = keep
}

func runOracle(c Case, evs []Ev) ([]Finding, Stats) {
	o := &orc{c: c, evs: evs, committed: map[string]int64{}, aborted: map[string]bool{}, origin: map[string]int{}, seen: map[string]bool{}, excused: map[string]bool{}}
	o.nodes = make([]*nodeM, c.Nodes+1)
	o.explained = make([]map[string]bool, c.Nodes+1)
	for i := range o.nodes {
		o.nodes[i] = &nodeM{K: map[string]bool{}, leaked: map[string]bool{}, outcomes: map[int]string{}, secRange: map[int][2]int64{},
			merges: map[string][]mergeRec{}, failedTo: map[int]int64{}, dispatched: map[string]bool{}}
		o.newSection(o.nodes[i], 0)
		o.explained[i] = map[string]bool{}
	}
	o.st.Events = len(evs)
	for i := range evs {
		if evs[i].K == "end" {
			o.st.End = evs[i].X
			o.st.StallUs = evs[i].Stall
		}
	}
	for i := range evs {
		e := &evs[i]
		o.pos = i
		if e.N < 0 || e.N > c.Nodes || e.P < 0 || e.P > c.Nodes {
			o.harness("event #%d names an unknown node", e.Seq)
			continue
		}
		nm := o.nodes[e.N]
		switch e.K {
		case "wcall":
			nm.pendingW = append(nm.pendingW, e.U)
		case "h.write":
			id := ""
			if c.Coding == "unit" {
				id = fmt.Sprintf("n%d#%d", e.N, nm.commitsN+len(nm.inflight)+1)
			} else if len(nm.pendingW) > 0 {
				id = nm.pendingW[0]
				nm.pendingW = nm.pendingW[1:]
			} else {
				id = fmt.Sprintf("?w%d", e.Seq)
				o.harness("write at #%d without a recorded update id", e.Seq)
			}
			if len(nm.inflight) == 0 {
				nm.sec.firstWrite = e.Seq
				nm.sec.roundOpenAtWrite = nm.roundOpen
			}
			nm.inflight = append(nm.inflight, id)
			nm.sec.ids = append(nm.sec.ids, id)
			o.origin[id] = e.N
		case "h.commit":
			o.endSection(e.N, e, "commit")
		case "h.abort":
			o.endSection(e.N, e, "abort")
		case "tick":
			if e.Need == 0 {
				o.st.RoundsSkipped++
			}
			o.onTick(e.N, e)
		case "bstart":
			o.st.Rounds++
			nm.roundOpen = true
			nm.roundPayload = idsOf(c.Coding, e.V)
			if len(nm.inflight) > 0 {
				nm.sec.roundIn = true
			}
			if len(nm.obligs) > 0 {
				in := setOf(nm.roundPayload)
				for _, ob := range nm.obligs {
					ob.rounds++
					all := true
					for _, id := range ob.ids {
						all = all && in[id]
					}
					if all {
						ob.roundsWith++
					}
				}
			}
			o.checkPayload(e.N, e)
		case "send":
			o.st.Sends++
			pm := o.nodes[e.P]
			for _, id := range nm.roundPayload {
				pm.dispatched[id] = true
			}
		case "sdone":
			if !e.OK {
				o.st.FailedSends++
				nm.failedTo[e.P] = e.Seq
			} else {
				for _, id := range idsOf(c.Coding, e.V) {
					nm.dispatched[id] = true
				}
			}
		case "bend":
			nm.roundOpen = false
		case "reply":
			o.checkPayload(e.N, e)
		case "queued":
			nm.queued++
			nm.ticksSinceQ = 0
		case "merged":
			o.st.Merges++
			nm.merged++
			sec := -1
			if e.In {
				sec = nm.sec.idx
				nm.sec.merges++
				o.st.MergesInSection++
			}
			for _, id := range idsOf(c.Coding, e.V) {
				if _, ok := o.committed[id]; ok {
					nm.K[id] = true
					nm.merges[id] = append(nm.merges[id], mergeRec{seq: e.Seq, sec: sec})
				} else {
					nm.leaked[id] = true
				}
			}
		case "rcall":
			nm.lower = make(map[string]bool, len(nm.K)+len(nm.inflight))
			for id := range nm.K {
				nm.lower[id] = true
			}
			for _, id := range nm.inflight {
				nm.lower[id] = true
			}
		case "rret":
			if e.Rd == nil || nm.lower == nil {
				nm.lower = nil
				break
			}
			if e.Rd.Err != "" {
				o.harness("read at #%d undecodable: %s", e.Seq, e.Rd.Err)
				break
			}
			upper := make(map[string]bool, len(nm.K)+len(nm.inflight))
			for id := range nm.K {
				upper[id] = true
			}
			for _, id := range nm.inflight {
				upper[id] = true
			}
			j := o.judge(nm.lower, upper, e.Rd)
			j.seq = e.Seq
			if c.Coding == "unit" && j.deficit > 0 {
				// keep the candidates for classification
				j.lowerSet = nm.lower
			}
			if len(j.lost) > 0 || len(j.extra) > 0 || j.deficit > 0 || j.surplus > 0 || len(nm.sec.reads) < 4 {
				nm.sec.reads = append(nm.sec.reads, j)
			} else {
				// clean read: count it at the outcome without keeping it
				nm.sec.reads = append(nm.sec.reads, readJ{seq: e.Seq})
			}
			nm.lower = nil
		case "closed":
			nm.closed = true
			// a node that stops is outside the statement ("peers reachable from the time of the update"): its
			// still undecided deliveries are not judged, nor is convergence on them
			for _, ob := range nm.obligs {
				for _, id := range ob.ids {
					o.excused[id] = true
					o.st.OriginStoppedEarly++
				}
			}
			nm.obligs = nil
		case "quiesced":
			o.st.Quiesced = e.X
			o.quiescedOK = e.X == "ok"
		case "final":
			o.finalRead(e)
		case "end":
			o.st.End = e.X
			if e.U != "" {
				o.harness("context error: %s", e.U)
			}
		}
	}
	// (iv) received state must not stay unmerged
	for n := 1; n <= c.Nodes; n++ {
		nm := o.nodes[n]
		if nm.merged < nm.queued && nm.ticksSinceQ >= 100 {
			o.add("received-state-never-merged", "state handed to the merge queue (argument of ReceiveValue or reply to an own broadcast) was still unmerged 100 ticks later",
				map[string]any{"node": n, "queued": nm.queued, "merged": nm.merged, "ticks_since_last_queued": nm.ticksSinceQ})
		}
	}
	return o.findings, o.st
}

// sendFailedSince: a send of id's origin to node n failed or timed out after id was committed — n was not a
// connected peer for that update.
func (o *orc) sendFailedSince(id string, n int) bool {
	org, ok := o.origin[id]
	if !ok {
		return false
	}
	return o.nodes[org].failedTo[n] > o.committed[id]
}

func (o *orc) finalRead(e *Ev) {
	n := e.N
	nm := o.nodes[n]
	if e.Rd == nil || e.Rd.Err != "" {
		o.harness("final read of node %d undecodable", n)
		return
	}
	o.st.FinalReads++
	// knowledge: the final read must contain everything the node committed or merged
	j := o.judge(nm.K, nm.K, e.Rd)
	j.seq = e.Seq
	o.reportRead(n, j, nm.K, "final read (after updates stopped)")
	if !o.quiescedOK || o.st.End != "" && o.st.End != "ok" {
		return
	}
	// convergence: the final read must equal the set of all committed updates
	o.st.ConvergenceJudged = true
	all := map[string]bool{}
	for id := range o.committed {
		all[id] = true
	}
	jc := o.judge(all, all, e.Rd)
	var unexplained []string
	if o.c.Coding == "unit" {
		if jc.deficit > 0 {
			ex := 0
			for id := range all {
				if o.explained[n][id] || o.excused[id] || o.sendFailedSince(id, n) {
					ex++
				}
			}
			if ex < jc.deficit {
				unexplained = append(unexplained, fmt.Sprintf("deficit %d, only %d attributable to reported violations", jc.deficit, ex))
			}
		}
	} else {
		for _, id := range jc.lost {
			if !o.explained[n][id] && !o.excused[id] && !o.sendFailedSince(id, n) {
				unexplained = append(unexplained, id)
			}
		}
	}
	if len(unexplained) > 0 {
		never := []string{}
		for _, id := range unexplained {
			if !nm.dispatched[id] {
				never = append(never, id)
			}
		}
		o.add("quiescent-divergence", "after updates stopped and the network went quiet a replica's read lacks a committed update, and no other reported violation accounts for it",
			map[string]any{"node": n, "read": e.Rd, "missing": unexplained, "missing_never_dispatched_to_node": never, "all_committed": sorted(all), "known_to_node": sorted(nm.K)})
	}
}

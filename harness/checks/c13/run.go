package main

// Child process: runs ONE case (2–4 real NewCRDT resources on 127.0.0.1 driven through real MPCalContexts)
// and writes the observed events as JSON lines.

import (
	"bufio"
	"encoding/json"
	"fmt"
	"io"
	"log"
	"net"
	"os"
	"strconv"
	"sync"
	"sync/atomic"
	"time"

	"github.com/DistCompiler/pgo/distsys"
	"github.com/DistCompiler/pgo/distsys/resources"
	"github.com/DistCompiler/pgo/distsys/tla"
	"github.com/DistCompiler/pgo/systems/gcounter"
	"github.com/DistCompiler/pgo/systems/shopcart"
)

// tickBound is N of the restated property: a committed update must have been dispatched towards every
// connected peer before the (N+1)-th tick of its node after the commit.
const tickBound = 3

// SecPlan is one planned critical section (attempt) of one node.
type SecPlan struct {
	RF   bool   `json:"rf,omitempty"` // read before the writes
	RM   bool   `json:"rm,omitempty"` // read between/after the writes, before the hold
	RL   bool   `json:"rl,omitempty"` // read after the hold, right before the section ends
	W    []Upd  `json:"w,omitempty"`
	Hold string `json:"hold"` // none | tick | merge | both | send
	Out  string `json:"out"`  // commit | abort-body | abort-pre
	Idle int    `json:"idle,omitempty"`
	RAb  int    `json:"rab,omitempty"` // shopcart engine: aborted attempts of the following rcvResp section
}

// Case is one run.
type Case struct {
	Idx         int         `json:"idx"`
	Seed        int64       `json:"seed"`
	Engine      string      `json:"engine"` // hand | gcounter | shopcart
	Coding      string      `json:"coding"` // bit | unit | elem
	Nodes       int         `json:"nodes"`
	SelfInPeers bool        `json:"self_in_peers,omitempty"`
	IntervalMs  int         `json:"interval_ms"`
	Perturb     bool        `json:"perturb,omitempty"`
	Light       bool        `json:"light,omitempty"`
	Plans       [][]SecPlan `json:"plans"`
}

// Ev is one recorded event (JSON line).
type Ev struct {
	Seq  int64    `json:"s"`
	K    string   `json:"k"`
	N    int      `json:"n,omitempty"`
	P    int      `json:"p,omitempty"`
	V    *Payload `json:"v,omitempty"`
	Old  *Payload `json:"old,omitempty"`
	In   bool     `json:"in,omitempty"`
	Need int      `json:"need,omitempty"`
	OK   bool     `json:"ok,omitempty"`
	U    string   `json:"u,omitempty"`
	X    string   `json:"x,omitempty"`
	Rd   *ReadObs `json:"rd,omitempty"`
	T    int64    `json:"t,omitempty"` // microseconds since the start of the run; for the reader of a witness only, no oracle uses it
	// only on the trailing "end" record
	Held  int   `json:"held,omitempty"`
	Ticks int   `json:"ticks,omitempty"`
	Stall int64 `json:"stall_us,omitempty"` // longest delay of a 2 ms sleeper beyond its period: machine/scheduler stalls
}

type rawEv struct {
	Ev
	v, old resources.CRDTValue
	rd     tla.Value
	hasRd  bool
}

type recorder struct {
	t0    time.Time
	mu    sync.Mutex
	seq   int64
	evs   []rawEv
	light bool
}

// add appends an event; the sequence number is taken under the same mutex, so the log order is a total order
// consistent with every lock of the code under test that is held around a hook call.
func (r *recorder) add(e rawEv) {
	if r.light {
		return
	}
	r.mu.Lock()
	r.seq++
	e.Seq = r.seq
	e.T = int64(time.Since(r.t0) / time.Microsecond)
	r.evs = append(r.evs, e)
	r.mu.Unlock()
}

func (r *recorder) flush(path string, tail Ev) {
	r.mu.Lock()
	defer r.mu.Unlock()
	f, err := os.Create(path)
	if err != nil {
		fmt.Println("cannot write events:", err)
		os.Exit(4)
	}
	w := bufio.NewWriterSize(f, 1<<16)
	enc := json.NewEncoder(w)
	for i := range r.evs {
		e := &r.evs[i]
		if e.v != nil {
			e.V = encodeValue(e.v)
		}
		if e.old != nil {
			e.Old = encodeValue(e.old)
		}
		if e.hasRd {
			e.Rd = encodeRead(e.rd)
		}
		_ = enc.Encode(&e.Ev)
	}
	r.seq++
	tail.Seq = r.seq
	_ = enc.Encode(&tail)
	_ = w.Flush()
	_ = f.Close()
}

type nodeLive struct {
	wake                         chan struct{} // poked by the tick/merged/send hooks of the node
	ticks, merges, sends, queued atomic.Int64
	idleStreak                   atomic.Int64
	bActive                      atomic.Int32
	planDone, closed             atomic.Bool
	ticksAtDone                  atomic.Int64
	// section snapshot, taken by the probe at the first write of a section (context goroutine only)
	hasSnap                         bool
	snapTicks, snapMerges, snapSend int64
	lastReadTicks, lastReadMerges   int64
}

type env struct {
	c     Case
	rec   *recorder
	live  []*nodeLive // index 1..n
	stop  atomic.Bool
	pcnt  atomic.Uint64
	heldT atomic.Int64 // sections that ended after >=1 tick and >=1 merge since their first write (live count, light mode)
}

func (l *nodeLive) poke() {
	select {
	case l.wake <- struct{}{}:
	default:
	}
}

// nap waits for the next hook event of the node, at most d.
func (l *nodeLive) nap(d time.Duration) {
	t := time.NewTimer(d)
	select {
	case <-l.wake:
	case <-t.C:
	}
	t.Stop()
}

func (e *env) perturb() {
	x := e.pcnt.Add(1)*0x9E3779B97F4A7C15 + uint64(e.c.Seed)
	x ^= x >> 30
	x *= 0xBF58476D1CE4E5B9
	x ^= x >> 27
	switch x % 4 {
	case 0:
		time.Sleep(time.Duration(50+x>>8%300) * time.Microsecond)
	case 1:
		// no pause
	default:
		time.Sleep(time.Duration(x>>8%80) * time.Microsecond)
	}
}

func (e *env) installHooks() {
	nodeOf := func(id tla.Value) int { return int(id.AsNumber()) }
	resources.VerifCRDTHooks = resources.VerifCRDTHookSet{
		Section: func(id tla.Value, kind string, hasOld bool, value, oldValue resources.CRDTValue) {
			ev := rawEv{Ev: Ev{K: "h." + kind, N: nodeOf(id), In: hasOld}}
			switch kind {
			case "write":
				ev.v = value
			case "abort":
				if hasOld {
					ev.v, ev.old = value, oldValue
				}
			}
			e.rec.add(ev)
		},
		Tick: func(id tla.Value, need int) {
			n := nodeOf(id)
			l := e.live[n]
			if need == 0 {
				l.idleStreak.Add(1)
			} else {
				l.idleStreak.Store(0)
			}
			e.rec.add(rawEv{Ev: Ev{K: "tick", N: n, Need: need}})
			l.ticks.Add(1)
			l.poke()
		},
		BroadcastStart: func(id tla.Value, stable resources.CRDTValue) {
			n := nodeOf(id)
			e.live[n].bActive.Store(1)
			e.rec.add(rawEv{Ev: Ev{K: "bstart", N: n}, v: stable})
		},
		Send: func(id, peer tla.Value, _ resources.CRDTValue) {
			n := nodeOf(id)
			e.rec.add(rawEv{Ev: Ev{K: "send", N: n, P: nodeOf(peer)}})
			e.live[n].sends.Add(1)
			e.live[n].poke()
			if e.c.Perturb {
				e.perturb()
			}
		},
		SendDone: func(id, peer tla.Value, err error, timedOut bool, reply resources.CRDTValue) {
			ev := rawEv{Ev: Ev{K: "sdone", N: nodeOf(id), P: nodeOf(peer), OK: err == nil && !timedOut}, v: reply}
			if err != nil {
				ev.X = err.Error()
			} else if timedOut {
				ev.X = "send timeout"
			}
			e.rec.add(ev)
		},
		BroadcastEnd: func(id tla.Value) {
			n := nodeOf(id)
			e.rec.add(rawEv{Ev: Ev{K: "bend", N: n}})
			e.live[n].bActive.Store(0)
		},
		Reply: func(id tla.Value, stable resources.CRDTValue) {
			e.rec.add(rawEv{Ev: Ev{K: "reply", N: nodeOf(id)}, v: stable})
		},
		Queued: func(id tla.Value, _ resources.CRDTValue) {
			n := nodeOf(id)
			e.live[n].queued.Add(1)
			e.rec.add(rawEv{Ev: Ev{K: "queued", N: n}})
		},
		Merged: func(id tla.Value, rcvd resources.CRDTValue, hasOld bool, _, _ resources.CRDTValue) {
			n := nodeOf(id)
			e.rec.add(rawEv{Ev: Ev{K: "merged", N: n, In: hasOld}, v: rcvd})
			e.live[n].merges.Add(1)
			e.live[n].poke()
		},
	}
}

// ---------------------------------------------------------------------------------------------
// probe: forwards to the real CRDT resource and records reads and writes at the resource interface.

type probe struct {
	distsys.ArchetypeResourceLeafMixin
	inner    distsys.ArchetypeResource
	node     int
	e        *env
	throttle bool // shipped gcounter archetype spins on a read: let one read through per tick/merge
}

func (p *probe) live() *nodeLive { return p.e.live[p.node] }

func (p *probe) ReadValue(iface distsys.ArchetypeInterface) (tla.Value, error) {
	l := p.live()
	if p.throttle {
		for !p.e.stop.Load() && l.ticks.Load() == l.lastReadTicks && l.merges.Load() == l.lastReadMerges {
			l.nap(2 * time.Millisecond)
		}
		if p.e.stop.Load() {
			time.Sleep(200 * time.Microsecond) // the archetype spins on this read until Stop takes effect
		}
		l.lastReadTicks, l.lastReadMerges = l.ticks.Load(), l.merges.Load()
	}
	p.e.rec.add(rawEv{Ev: Ev{K: "rcall", N: p.node}})
	v, err := p.inner.ReadValue(iface)
	if err != nil {
		p.e.rec.add(rawEv{Ev: Ev{K: "rret", N: p.node, X: err.Error()}})
		return v, err
	}
	p.e.rec.add(rawEv{Ev: Ev{K: "rret", N: p.node}, rd: v, hasRd: true})
	return v, nil
}

func (p *probe) WriteValue(iface distsys.ArchetypeInterface, value tla.Value) error {
	l := p.live()
	if !l.hasSnap {
		l.hasSnap = true
		l.snapTicks, l.snapMerges, l.snapSend = l.ticks.Load(), l.merges.Load(), l.sends.Load()
	}
	p.e.rec.add(rawEv{Ev: Ev{K: "wcall", N: p.node, U: updateID(p.e.c.Coding, value)}})
	return p.inner.WriteValue(iface, value)
}

func (p *probe) endSection() {
	l := p.live()
	if l.hasSnap && l.ticks.Load() > l.snapTicks && l.merges.Load() > l.snapMerges {
		p.e.heldT.Add(1)
	}
	l.hasSnap = false
}

func (p *probe) PreCommit(iface distsys.ArchetypeInterface) chan error {
	return p.inner.PreCommit(iface)
}
func (p *probe) Commit(iface distsys.ArchetypeInterface) chan struct{} {
	ch := p.inner.Commit(iface)
	p.endSection()
	return ch
}
func (p *probe) Abort(iface distsys.ArchetypeInterface) chan struct{} {
	ch := p.inner.Abort(iface)
	p.endSection()
	return ch
}
func (p *probe) Close() error { return p.inner.Close() }

// ---------------------------------------------------------------------------------------------
// gate: the harness-side environment resource of a node. It feeds the plan, holds a section open after its
// writes until the planned interleaving was observed (counted H5 events), and makes the section abort if the
// plan says so — either from the body (the operation returns ErrCriticalSectionAborted, like a mailbox read
// that times out) or from PreCommit (like a remote resource that refuses).

type gate struct {
	role   string // ctl (hand-built archetype) | c (gcounter.ANode) | in, out (shopcart.ANode)
	node   int
	e      *env
	plan   []SecPlan
	idx    int
	active bool
	idleTo int64
	rab    int   // out: remaining aborts of the current rcvResp
	owner  *gate // out -> in
}

func (g *gate) live() *nodeLive { return g.e.live[g.node] }

func (g *gate) markDone() {
	l := g.live()
	if !l.planDone.Load() {
		l.ticksAtDone.Store(l.ticks.Load())
		l.planDone.Store(true)
	}
}

func (g *gate) hold(mode string) {
	l := g.live()
	if !l.hasSnap || mode == "none" || mode == "" {
		return
	}
	capT := l.snapTicks + 8
	for !g.e.stop.Load() {
		t, m, s := l.ticks.Load(), l.merges.Load(), l.sends.Load()
		ok := false
		switch mode {
		case "tick":
			ok = t > l.snapTicks
		case "merge":
			ok = m > l.snapMerges
		case "both":
			ok = t > l.snapTicks && m > l.snapMerges
		case "send":
			ok = s > l.snapSend
		}
		if ok || t >= capT {
			return
		}
		l.nap(2 * time.Millisecond)
	}
}

func (g *gate) waitIdle() {
	l := g.live()
	for !g.e.stop.Load() && l.ticks.Load() < g.idleTo {
		l.nap(2 * time.Millisecond)
	}
}

func (g *gate) cur() *SecPlan { return &g.plan[g.idx] }

func (g *gate) advance() {
	if !g.active {
		return
	}
	g.active = false
	g.idleTo = g.live().ticks.Load() + int64(g.cur().Idle)
	g.idx++
}

var errAbort = distsys.ErrCriticalSectionAborted

func stepRecord(s *SecPlan) tla.Value {
	ws := make([]tla.Value, len(s.W))
	for i, u := range s.W {
		ws[i] = u.value()
	}
	return tla.MakeRecord([]tla.RecordField{
		{Key: tla.MakeString("rf"), Value: tla.MakeBool(s.RF)},
		{Key: tla.MakeString("rm"), Value: tla.MakeBool(s.RM)},
		{Key: tla.MakeString("rl"), Value: tla.MakeBool(s.RL)},
		{Key: tla.MakeString("w"), Value: tla.MakeTuple(ws...)},
	})
}

func (g *gate) Index(distsys.ArchetypeInterface, tla.Value) (distsys.ArchetypeResource, error) {
	return g, nil
}

func (g *gate) ReadValue(distsys.ArchetypeInterface) (tla.Value, error) {
	switch g.role {
	case "ctl", "in":
		if g.idx >= len(g.plan) || g.e.stop.Load() {
			g.markDone()
			time.Sleep(time.Millisecond)
			return tla.Value{}, errAbort
		}
		g.waitIdle()
		g.active = true
		if g.role == "ctl" {
			return stepRecord(g.cur()), nil
		}
		return g.cur().W[0].value(), nil
	}
	return tla.MakeSet(), nil
}

func (g *gate) WriteValue(distsys.ArchetypeInterface, tla.Value) error {
	switch g.role {
	case "ctl":
		s := g.cur()
		g.hold(s.Hold)
		if s.Out == "abort-body" {
			return errAbort
		}
	case "c":
		if g.idx < len(g.plan) {
			g.active = true
			s := g.cur()
			g.hold(s.Hold)
			if s.Out == "abort-body" {
				return errAbort
			}
		}
	}
	return nil
}

func (g *gate) PreCommit(distsys.ArchetypeInterface) chan error {
	switch g.role {
	case "ctl", "c":
		if g.active && g.cur().Out == "abort-pre" {
			ch := make(chan error, 1)
			ch <- errAbort
			return ch
		}
	case "in":
		if g.active {
			s := g.cur()
			ch := make(chan error, 1)
			go func() {
				g.hold(s.Hold)
				if s.Out == "commit" {
					ch <- nil
				} else {
					ch <- errAbort
				}
			}()
			return ch
		}
	case "out":
		if g.rab > 0 {
			g.rab--
			ch := make(chan error, 1)
			ch <- errAbort
			return ch
		}
	}
	return nil
}

func (g *gate) Commit(distsys.ArchetypeInterface) chan struct{} {
	switch g.role {
	case "ctl", "c":
		g.advance()
		if g.idx >= len(g.plan) {
			g.markDone()
		}
	case "in":
		if g.active && g.owner != nil {
			g.owner.rab = g.cur().RAb
		}
		g.advance()
	}
	return nil
}

func (g *gate) Abort(distsys.ArchetypeInterface) chan struct{} {
	switch g.role {
	case "ctl", "c", "in":
		g.advance()
		if g.role != "in" && g.idx >= len(g.plan) {
			g.markDone()
		}
	}
	return nil
}

func (g *gate) Close() error { return nil }

// ---------------------------------------------------------------------------------------------
// hand-built archetype, following the conventions of generated code (cf. systems/gcounter/gcounter.go)

var handJumpTable = distsys.MakeMPCalJumpTable(
	distsys.MPCalCriticalSection{
		Name: "ANode.step",
		Body: func(iface distsys.ArchetypeInterface) error {
			var err error
			_ = err
			ctl, err := iface.RequireArchetypeResourceRef("ANode.ctl")
			if err != nil {
				return err
			}
			cntr, err := iface.RequireArchetypeResourceRef("ANode.cntr")
			if err != nil {
				return err
			}
			var cmd tla.Value
			cmd, err = iface.Read(ctl, nil)
			if err != nil {
				return err
			}
			if cmd.ApplyFunction(tla.MakeString("rf")).AsBool() {
				_, err = iface.Read(cntr, []tla.Value{iface.Self()})
				if err != nil {
					return err
				}
			}
			it := cmd.ApplyFunction(tla.MakeString("w")).AsTuple().Iterator()
			for !it.Done() {
				_, w := it.Next()
				err = iface.Write(cntr, []tla.Value{iface.Self()}, w)
				if err != nil {
					return err
				}
			}
			if cmd.ApplyFunction(tla.MakeString("rm")).AsBool() {
				_, err = iface.Read(cntr, []tla.Value{iface.Self()})
				if err != nil {
					return err
				}
			}
			err = iface.Write(ctl, nil, tla.MakeString("hold"))
			if err != nil {
				return err
			}
			if cmd.ApplyFunction(tla.MakeString("rl")).AsBool() {
				_, err = iface.Read(cntr, []tla.Value{iface.Self()})
				if err != nil {
					return err
				}
			}
			return iface.Goto("ANode.step")
		},
	},
	distsys.MPCalCriticalSection{
		Name: "ANode.Done",
		Body: func(distsys.ArchetypeInterface) error {
			return distsys.ErrDone
		},
	},
)

var handANode = distsys.MPCalArchetype{
	Name:              "ANode",
	Label:             "ANode.step",
	RequiredRefParams: []string{"ANode.cntr", "ANode.ctl"},
	RequiredValParams: []string{},
	JumpTable:         handJumpTable,
	ProcTable:         distsys.MakeMPCalProcTable(),
	PreAmble: func(iface distsys.ArchetypeInterface) {
	},
}

// ---------------------------------------------------------------------------------------------

func freePorts(n int) []int {
	var ls []net.Listener
	var ports []int
	for i := 0; i < n; i++ {
		l, err := net.Listen("tcp", "127.0.0.1:0")
		if err != nil {
			fmt.Println("cannot find a free port:", err)
			os.Exit(4)
		}
		ls = append(ls, l)
		ports = append(ports, l.Addr().(*net.TCPAddr).Port)
	}
	for _, l := range ls {
		l.Close()
	}
	return ports
}

func childMain() {
	log.SetOutput(io.Discard)
	if len(os.Args) < 3 {
		fmt.Println("child: need <case.json> <events.jsonl>")
		os.Exit(4)
	}
	var c Case
	buf, err := os.ReadFile(os.Args[1])
	if err == nil {
		err = json.Unmarshal(buf, &c)
	}
	if err != nil {
		fmt.Println("child: bad case file:", err)
		os.Exit(4)
	}
	outPath := os.Args[2]
	e := &env{c: c, rec: &recorder{light: c.Light, t0: time.Now()}, live: make([]*nodeLive, c.Nodes+1)}
	for i := range e.live {
		e.live[i] = &nodeLive{wake: make(chan struct{}, 1)}
	}
	e.installHooks()
	var maxStall atomic.Int64
	go func() {
		last := time.Now()
		for {
			time.Sleep(2 * time.Millisecond)
			now := time.Now()
			if d := int64(now.Sub(last)/time.Microsecond) - 2000; d > maxStall.Load() {
				maxStall.Store(d)
			}
			last = now
		}
	}()

	ports := freePorts(c.Nodes)
	addr := func(id tla.Value) string { return "127.0.0.1:" + strconv.Itoa(ports[id.AsNumber()-1]) }
	var newValue resources.CRDTValue = resources.GCounter{}
	if c.Coding == "elem" {
		newValue = resources.AWORSet{}
	}
	probes := make([]*probe, c.Nodes+1)
	for i := 1; i <= c.Nodes; i++ {
		self := tla.MakeNumber(int32(i))
		var peers []tla.Value
		for j := 1; j <= c.Nodes; j++ {
			if j != i || c.SelfInPeers {
				peers = append(peers, tla.MakeNumber(int32(j)))
			}
		}
		res := resources.NewCRDT(self, peers, addr, newValue,
			resources.WithCRDTBroadcastInterval(time.Duration(c.IntervalMs)*time.Millisecond),
			// generous, so that a stall of the (shared, loaded) machine is not taken for an unreachable peer
			resources.WithCRDTSendTimeout(25*time.Second), resources.WithCRDTDialTimeout(25*time.Second))
		probes[i] = &probe{inner: res, node: i, e: e, throttle: c.Engine == "gcounter"}
	}
	toMap := func(i int) distsys.ArchetypeResource {
		self := tla.MakeNumber(int32(i))
		return resources.NewIncMap(func(index tla.Value) distsys.ArchetypeResource {
			if !index.Equal(self) {
				panic("wrong index")
			}
			return probes[i]
		})
	}
	ctxs := make([]*distsys.MPCalContext, c.Nodes+1)
	for i := 1; i <= c.Nodes; i++ {
		self := tla.MakeNumber(int32(i))
		plan := c.Plans[i-1]
		switch c.Engine {
		case "hand":
			ctxs[i] = distsys.NewMPCalContext(self, handANode,
				distsys.EnsureArchetypeRefParam("cntr", toMap(i)),
				distsys.EnsureArchetypeRefParam("ctl", &gate{role: "ctl", node: i, e: e, plan: plan}))
		case "gcounter":
			ctxs[i] = distsys.NewMPCalContext(self, gcounter.ANode,
				distsys.DefineConstantValue("NUM_NODES", tla.MakeNumber(int32(c.Nodes))),
				distsys.DefineConstantValue("BENCH_NUM_ROUNDS", tla.MakeNumber(0)),
				distsys.EnsureArchetypeRefParam("cntr", toMap(i)),
				distsys.EnsureArchetypeRefParam("c", &gate{role: "c", node: i, e: e, plan: plan}))
		case "shopcart":
			in := &gate{role: "in", node: i, e: e, plan: plan}
			out := &gate{role: "out", node: i, e: e, owner: in}
			in.owner = out
			ctxs[i] = distsys.NewMPCalContext(self, shopcart.ANode,
				distsys.EnsureArchetypeRefParam("crdt", toMap(i)),
				distsys.EnsureArchetypeRefParam("in", in),
				distsys.EnsureArchetypeRefParam("out", out))
		default:
			fmt.Println("child: unknown engine", c.Engine)
			os.Exit(4)
		}
	}

	var wg sync.WaitGroup
	runErrs := make([]error, c.Nodes+1)
	for i := 1; i <= c.Nodes; i++ {
		wg.Add(1)
		go func(i int) {
			defer wg.Done()
			defer func() {
				if r := recover(); r != nil {
					runErrs[i] = fmt.Errorf("panic: %v", r)
				}
				e.live[i].closed.Store(true)
				e.rec.add(rawEv{Ev: Ev{K: "closed", N: i}})
			}()
			runErrs[i] = ctxs[i].Run()
		}(i)
	}

	// phase 1: every plan finished (counted; the deadline is only a watchdog => inconclusive)
	verdict := "ok"
	deadline := time.Now().Add(40 * time.Second)
	for {
		all := true
		for i := 1; i <= c.Nodes; i++ {
			if !e.live[i].planDone.Load() && !e.live[i].closed.Load() {
				all = false
			}
		}
		if all {
			break
		}
		if time.Now().After(deadline) {
			verdict = "watchdog-plans"
			break
		}
		time.Sleep(time.Millisecond)
	}
	// phase 2: at least tickBound+2 further ticks everywhere, then a quiet network (three consecutive ticks
	// that found nothing to broadcast, no round in progress, merge queue drained); capped by ticks
	quiesced := "ok"
	if verdict == "ok" {
		for {
			quiet, capped := true, true
			for i := 1; i <= c.Nodes; i++ {
				l := e.live[i]
				if l.closed.Load() {
					continue
				}
				since := l.ticks.Load() - l.ticksAtDone.Load()
				if since < 150 {
					capped = false
				}
				if since < tickBound+2 || l.idleStreak.Load() < 3 || l.bActive.Load() != 0 || l.queued.Load() != l.merges.Load() {
					quiet = false
				}
			}
			if quiet {
				break
			}
			if capped {
				quiesced = "capped"
				break
			}
			if time.Now().After(deadline) {
				verdict = "watchdog-quiesce"
				break
			}
			time.Sleep(time.Millisecond)
		}
	}
	e.rec.add(rawEv{Ev: Ev{K: "quiesced", X: quiesced}})
	e.stop.Store(true)
	stopped := make(chan struct{})
	go func() {
		for i := 1; i <= c.Nodes; i++ {
			ctxs[i].Stop()
		}
		wg.Wait()
		close(stopped)
	}()
	select {
	case <-stopped:
	case <-time.After(15 * time.Second):
		verdict = "watchdog-stop"
	}
	if verdict != "watchdog-stop" {
		for i := 1; i <= c.Nodes; i++ {
			v, err := probes[i].inner.ReadValue(ctxs[i].IFace())
			if err == nil {
				e.rec.add(rawEv{Ev: Ev{K: "final", N: i}, rd: v, hasRd: true})
			}
		}
	}
	errText := ""
	for i := 1; i <= c.Nodes; i++ {
		if runErrs[i] != nil {
			errText += fmt.Sprintf("node %d: %v; ", i, runErrs[i])
		}
	}
	ticks := int64(0)
	for i := 1; i <= c.Nodes; i++ {
		ticks += e.live[i].ticks.Load()
	}
	e.rec.flush(outPath, Ev{K: "end", X: verdict, U: errText, Held: int(e.heldT.Load()), Ticks: int(ticks), Stall: maxStall.Load()})
	os.Exit(0)
}

// C13 — the CRDT resource delivers every committed update and loses none.
//
// Workload: 2–4 real resources.NewCRDT instances (GCounter / AWORSet) on 127.0.0.1 with a 1–5 ms broadcast
// ticker, each driven through a real MPCalContext: a hand-built archetype that follows the generated-code
// conventions, the shipped gcounter.ANode and the shipped shopcart.ANode. A harness-side environment resource
// ("gate") holds every writing section open until >=1 ticker tick AND >=1 incoming merge were observed since
// its first write (counted through hook H5), then lets it commit or makes it abort (from the body or from
// PreCommit), as planned from the seed. Every write of a run is identifiable in every CRDT state (GCounter
// increments are distinct powers of two; AWORSet elements are unique and never touched by two nodes).
//
// Oracle (oracle.go): offline over {section write/commit/abort, tick, broadcast round start + payload, send,
// send completion + reply payload, reply, queued, merged, reads}: payload ⊑ committed state and free of in-flight
// or aborted updates; knowledge monotonicity of reads, across aborts; tick-count bound for a committed update to
// be dispatched towards every connected peer; nothing received stays unmerged; quiescent convergence.
// A second group of runs executes under the race detector with counter-only hooks.
package main

import (
	"bufio"
	"encoding/json"
	"fmt"
	"math/rand"
	"os"
	"path/filepath"
	"sort"
	"strings"
	"time"

	"verifh/common"
)

func genPlanHand(rng *rand.Rand, c *Case, nextBit *int) {
	perNode := 30 / c.Nodes
	if perNode > 10 {
		perNode = 10
	}
	for n := 1; n <= c.Nodes; n++ {
		var plan []SecPlan
		left := perNode
		elemN := 0
		var removable []int
		readOnly := 0
		for left > 0 {
			s := SecPlan{RF: rng.Intn(2) == 0, RM: rng.Intn(5) < 2, RL: rng.Intn(5) < 2}
			k := 1
			switch x := rng.Intn(20); {
			case x < 3 && readOnly < 3:
				k = 0
				readOnly++
			case x < 8 && left >= 2:
				k = 2
			}
			switch x := rng.Intn(20); {
			case x < 11:
				s.Out = "commit"
			case x < 15:
				s.Out = "abort-body"
			default:
				s.Out = "abort-pre"
			}
			if left-k == 0 && rng.Intn(2) == 0 {
				s.Out = "commit" // half of the nodes end with a committed update: its delivery is what (iii) probes
			}
			switch x := rng.Intn(20); {
			case x < 11:
				s.Hold = "both"
			case x < 13:
				s.Hold = "tick"
			case x < 15:
				s.Hold = "merge"
			case x < 17:
				s.Hold = "send"
			default:
				s.Hold = "none"
			}
			if rng.Intn(2) == 0 {
				s.Idle = 1 + rng.Intn(4)
			}
			var added []int
			for i := 0; i < k; i++ {
				if c.Coding == "bit" {
					s.W = append(s.W, Upd{Op: "inc", Arg: 1 << *nextBit})
					*nextBit++
				} else if len(removable) > 0 && rng.Intn(4) == 0 {
					j := rng.Intn(len(removable))
					s.W = append(s.W, Upd{Op: "rem", Arg: removable[j]})
					removable = append(removable[:j], removable[j+1:]...)
				} else {
					elemN++
					e := n*100 + elemN
					s.W = append(s.W, Upd{Op: "add", Arg: e})
					added = append(added, e)
				}
			}
			if s.Out == "commit" {
				removable = append(removable, added...)
			}
			left -= k
			plan = append(plan, s)
		}
		c.Plans = append(c.Plans, plan)
	}
}

func genPlanGCounter(rng *rand.Rand, c *Case) {
	for n := 1; n <= c.Nodes; n++ {
		var plan []SecPlan
		for a := rng.Intn(3); a > 0; a-- {
			out := "abort-pre"
			if rng.Intn(3) == 0 {
				out = "abort-body"
			}
			plan = append(plan, SecPlan{W: []Upd{{Op: "inc", Arg: 1}}, Hold: "both", Out: out})
		}
		hold := []string{"both", "both", "tick", "send", "none"}[rng.Intn(5)]
		plan = append(plan, SecPlan{W: []Upd{{Op: "inc", Arg: 1}}, Hold: hold, Out: "commit"})
		c.Plans = append(c.Plans, plan)
	}
}

func genPlanShopcart(rng *rand.Rand, c *Case) {
	for n := 1; n <= c.Nodes; n++ {
		var plan []SecPlan
		elemN := 0
		var removable []int
		steps := 4 + rng.Intn(5)
		for i := 0; i < steps; i++ {
			s := SecPlan{Out: "commit", Hold: []string{"both", "both", "both", "tick", "merge", "send", "none"}[rng.Intn(7)]}
			if rng.Intn(20) < 7 {
				s.Out = "abort-pre"
			}
			if i == steps-1 && rng.Intn(2) == 0 {
				s.Out = "commit"
			}
			if rng.Intn(2) == 0 {
				s.Idle = 1 + rng.Intn(3)
			}
			if rng.Intn(4) == 0 {
				s.RAb = 1
			}
			if len(removable) > 0 && rng.Intn(4) == 0 {
				j := rng.Intn(len(removable))
				s.W = []Upd{{Op: "rem", Arg: removable[j]}}
				removable = append(removable[:j], removable[j+1:]...)
			} else {
				elemN++
				e := n*100 + elemN
				s.W = []Upd{{Op: "add", Arg: e}}
				if s.Out == "commit" {
					removable = append(removable, e)
				}
			}
			plan = append(plan, s)
		}
		c.Plans = append(c.Plans, plan)
	}
}

func genCase(rng *rand.Rand, idx int, light bool) Case {
	c := Case{Idx: idx, Seed: rng.Int63(), Nodes: 2 + rng.Intn(3), IntervalMs: 1 + rng.Intn(5), Perturb: rng.Intn(2) == 0, Light: light}
	switch idx % 8 {
	case 0, 1, 2, 3:
		c.Engine, c.Coding = "hand", "bit"
		c.SelfInPeers = rng.Intn(4) == 0
		bit := 0
		genPlanHand(rng, &c, &bit)
	case 4, 5:
		c.Engine, c.Coding = "hand", "elem"
		c.SelfInPeers = rng.Intn(4) == 0
		genPlanHand(rng, &c, nil)
	case 6:
		c.Engine, c.Coding = "gcounter", "unit"
		genPlanGCounter(rng, &c)
	case 7:
		c.Engine, c.Coding = "shopcart", "elem"
		c.SelfInPeers = true // as systems/shopcart/bootstrap.go configures it
		genPlanShopcart(rng, &c)
	}
	return c
}

type runResult struct {
	c            Case
	findings     []Finding
	st           Stats
	evs          []Ev
	inconclusive string
	wall         time.Duration
}

func readEvents(path string) (evs []Ev, complete bool, err error) {
	f, err := os.Open(path)
	if err != nil {
		return nil, false, err
	}
	defer f.Close()
	sc := bufio.NewScanner(f)
	sc.Buffer(make([]byte, 1<<20), 1<<28)
	for sc.Scan() {
		var e Ev
		if json.Unmarshal(sc.Bytes(), &e) != nil {
			continue
		}
		if e.K == "end" {
			complete = true
		}
		evs = append(evs, e)
	}
	return evs, complete, sc.Err()
}

func tailOf(s string, n int) string {
	if len(s) > n {
		return s[len(s)-n:]
	}
	return s
}

func runCase(dir string, c Case, exe string, env []string) (res runResult) {
	res.c = c
	casePath := filepath.Join(dir, fmt.Sprintf("case-%d-%v.json", c.Idx, c.Light))
	evPath := filepath.Join(dir, fmt.Sprintf("events-%d-%v.jsonl", c.Idx, c.Light))
	buf, _ := json.Marshal(c)
	if err := os.WriteFile(casePath, buf, 0o644); err != nil {
		res.inconclusive = "cannot write case file: " + err.Error()
		return
	}
	cr := common.RunChild(exe, "run", dir, env, 90*time.Second, casePath, evPath)
	res.wall = cr.Wall
	defer os.Remove(evPath)
	defer os.Remove(cr.OutPath)
	if cr.TimedOut {
		res.inconclusive = fmt.Sprintf("case %d: child watchdog expired", c.Idx)
		return
	}
	evs, complete, err := readEvents(evPath)
	// a -race child exits with 66 when the detector reported something; its event file is still complete
	if err != nil || !complete || (cr.ExitCode != 0 && !(c.Light && cr.ExitCode == 66)) {
		res.inconclusive = fmt.Sprintf("case %d: child exit=%d complete=%v err=%v output=%q", c.Idx, cr.ExitCode, complete, err, tailOf(cr.Output, 400))
		return
	}
	res.evs = evs
	if c.Light {
		end := evs[len(evs)-1]
		res.st.End = end.X
		res.st.HeldCommit = end.Held // sections that saw >=1 tick and >=1 merge since their first write (live count)
		res.st.Ticks = end.Ticks
		if end.X != "ok" {
			res.inconclusive = fmt.Sprintf("race case %d: %s", c.Idx, end.X)
		}
		return
	}
	res.findings, res.st = runOracle(c, evs)
	if res.st.End != "ok" {
		res.inconclusive = fmt.Sprintf("case %d: driver watchdog: %s", c.Idx, res.st.End)
	} else if len(res.st.Harness) > 0 {
		res.inconclusive = fmt.Sprintf("case %d: harness inconsistency: %s", c.Idx, strings.Join(res.st.Harness, "; "))
	}
	return
}

// ---------------------------------------------------------------------------------------------
// race reports

type raceReport struct {
	Tops    [2]string `json:"top_frames"`
	Decides bool      `json:"decides"`
	Text    string    `json:"text"`
}

func parseRaceLogs(glob string) []raceReport {
	files, _ := filepath.Glob(glob)
	var out []raceReport
	for _, f := range files {
		buf, err := os.ReadFile(f)
		if err != nil {
			continue
		}
		for _, blk := range strings.Split(string(buf), "WARNING: DATA RACE")[1:] {
			if i := strings.Index(blk, "=================="); i >= 0 {
				blk = blk[:i]
			}
			lines := strings.Split(blk, "\n")
			var tops []string
			for i, ln := range lines {
				l := strings.TrimSpace(ln)
				if (strings.HasPrefix(l, "Write at") || strings.HasPrefix(l, "Read at") || strings.HasPrefix(l, "Previous write at") || strings.HasPrefix(l, "Previous read at")) && i+1 < len(lines) {
					fn := strings.TrimSpace(lines[i+1])
					if j := strings.LastIndex(fn, "("); j > 0 {
						fn = fn[:j]
					}
					tops = append(tops, fn)
				}
			}
			r := raceReport{Text: strings.TrimSpace(blk)}
			if len(r.Text) > 1500 {
				r.Text = r.Text[:1500] + " …"
			}
			if len(tops) >= 2 {
				r.Tops = [2]string{tops[0], tops[1]}
				sort.Strings(r.Tops[:])
				inCRDT := func(fn string) bool {
					if !(strings.Contains(fn, "resources.(*crdt).") || strings.Contains(fn, "resources.(*CRDTRPCReceiver).")) {
						return false
					}
					// connection management is not the state the property protects
					return !strings.Contains(fn, "tryConnectPeers") && !strings.Contains(fn, ".Close")
				}
				r.Decides = inCRDT(tops[0]) && inCRDT(tops[1])
			}
			out = append(out, r)
		}
		os.Remove(f)
	}
	return out
}

// ---------------------------------------------------------------------------------------------

type witness struct {
	Case    Case    `json:"case"`
	Finding Finding `json:"finding"`
	Events  []Ev    `json:"events"`
}

func replay(r *common.Run) {
	buf, err := os.ReadFile(r.Replay)
	var file struct {
		Witness witness `json:"witness"`
	}
	if err == nil {
		err = json.Unmarshal(buf, &file)
	}
	if err != nil {
		fmt.Println("cannot read replay file:", err)
		os.Exit(3)
	}
	w := file.Witness
	if len(w.Events) == 0 {
		// race witnesses carry no event log: report the stored finding again
		r.Report(w.Finding.Key, w.Finding.Desc, w)
		r.Finish(common.Coverage{Evaluations: 1, Rule: "replay of a stored race report"}, nil)
	}
	findings, st := runOracle(w.Case, w.Events)
	for _, f := range findings {
		fmt.Printf("replayed oracle: %s — %s\n", f.Key, f.Desc)
		r.Report(f.Key, f.Desc, witness{Case: w.Case, Finding: f, Events: w.Events})
	}
	r.Finish(common.Coverage{Evaluations: 1, DistinctNontrivial: 1, Rule: "replay: the stored event log was re-evaluated by the offline oracle",
		Extra: map[string]any{"events": st.Events, "findings": len(findings)}}, nil)
}

func main() {
	if common.ChildRole() != "" {
		childMain()
		return
	}
	r := common.Start("C13", "exploration")
	if r.Replay != "" {
		replay(r)
		return
	}
	nBehav := r.Pick(48, 480)
	nRace := r.Pick(6, 48)
	if v := os.Getenv("VERIF_C13_RUNS"); v != "" { // development aid: "<behavioural>,<race>"
		fmt.Sscanf(v, "%d,%d", &nBehav, &nRace)
	}
	workers := r.Pick(8, 12)
	rng := r.Rand("cases")
	var cases []Case
	for i := 0; i < nBehav; i++ {
		cases = append(cases, genCase(rng, i, false))
	}
	rrng := r.Rand("race-cases")
	var raceCases []Case
	raceBin := os.Getenv("VERIF_RACE_BIN")
	if raceBin != "" {
		for i := 0; i < nRace; i++ {
			raceCases = append(raceCases, genCase(rrng, i, true))
		}
	} else {
		r.Note("VERIF_RACE_BIN not set: race runs skipped")
	}
	dir := common.Scratch("c13")
	cleanup := func() { os.RemoveAll(dir) }
	defer cleanup()

	results := make([]runResult, len(cases))
	raceResults := make([]runResult, len(raceCases))
	raceReports := make([][]raceReport, len(raceCases))
	total := len(cases) + len(raceCases)
	common.Parallel(total, workers, func(i int) {
		if i < len(cases) {
			results[i] = runCase(dir, cases[i], "", nil)
			return
		}
		k := i - len(cases)
		logBase := filepath.Join(dir, fmt.Sprintf("race-%d", k))
		raceResults[k] = runCase(dir, raceCases[k], raceBin, []string{"GORACE=halt_on_error=0 log_path=" + logBase})
		raceReports[k] = parseRaceLogs(logBase + ".*")
	})

	// ---- aggregate
	evaluations, nontrivial := 0, 0
	var distinct common.Distinct
	samples := common.SampleKeeper{N: 4}
	sum := map[string]int{}
	byEngine := map[string]int{}
	findingKeys := map[string]int{}
	convergence := 0
	for i := range results {
		res := &results[i]
		if res.inconclusive != "" {
			r.Inconclusive(res.inconclusive)
			continue
		}
		evaluations++
		st := res.st
		byEngine[res.c.Engine+"/"+res.c.Coding]++
		for k, v := range map[string]int{"events": st.Events, "ticks": st.Ticks, "broadcast_rounds": st.Rounds, "ticks_with_nothing_to_broadcast": st.RoundsSkipped,
			"sends": st.Sends, "merges": st.Merges, "merges_while_section_open": st.MergesInSection, "sections": st.Sections,
			"sections_with_writes": st.SecWrite, "writing_sections_committed": st.SecCommitW, "writing_sections_aborted": st.SecAbortW,
			"committed_after_tick_and_merge_since_write": st.HeldCommit, "aborted_after_tick_and_merge_since_write": st.HeldAbort,
			"commits_with_round_started_between_write_and_commit": st.RoundInSecCommit, "aborts_with_merge_during_section": st.MergeInSecAbort,
			"commits_during_in_flight_round": st.CommitDuringRound,
			"payloads_checked":               st.PayloadsChecked, "reads_judged": st.ReadsJudged, "reads_in_aborted_sections_not_judged": st.ReadsDiscarded,
			"delivery_obligations": st.Obligations, "delivery_obligations_decided": st.ObligationsDecided, "final_reads": st.FinalReads} {
			sum[k] += v
		}
		if st.ConvergenceJudged {
			convergence++
		}
		sum["failed_or_timed_out_sends"] += st.FailedSends
		sum["committed_updates_not_judged_because_origin_stopped_within_tick_bound"] += st.OriginStoppedEarly
		if int(st.StallUs) > sum["max_process_stall_us"] {
			sum["max_process_stall_us"] = int(st.StallUs)
		}
		if st.StallUs > 500000 {
			sum["runs_with_process_stall_over_500ms"]++
		}
		if st.Quiesced != "ok" {
			sum["runs_quiescence_capped"]++
		}
		if st.HeldCommit >= 1 && st.HeldAbort >= 1 {
			nontrivial++
			distinct.Add(fmt.Sprintf("%d", res.c.Seed))
		}
		samples.Add(map[string]any{"case": res.c, "observed": st, "findings": len(res.findings)})
		for _, f := range res.findings {
			findingKeys[f.Key]++
			r.Report(f.Key, f.Desc, witness{Case: res.c, Finding: f, Events: res.evs})
		}
	}
	raceRuns, racesSeen, racesDeciding := 0, 0, 0
	var raceObs []any
	for k := range raceResults {
		res := &raceResults[k]
		if res.inconclusive != "" {
			r.Inconclusive(res.inconclusive)
			continue
		}
		raceRuns++
		sum["race_run_sections_held_over_tick_and_merge"] += res.st.HeldCommit
		sum["race_run_ticks"] += res.st.Ticks
		seen := map[string]bool{}
		for _, rep := range raceReports[k] {
			racesSeen++
			sig := rep.Tops[0] + " | " + rep.Tops[1]
			if seen[sig] {
				continue
			}
			seen[sig] = true
			if rep.Decides {
				racesDeciding++
				short := func(fn string) string {
					if i := strings.LastIndex(fn, "resources."); i >= 0 {
						return fn[i+len("resources."):]
					}
					return fn
				}
				key := "C13:data-race:" + short(rep.Tops[0]) + "|" + short(rep.Tops[1])
				findingKeys[key]++
				r.Report(key, "the race detector reported unsynchronised accesses to the CRDT resource's state",
					witness{Case: res.c, Finding: Finding{Key: key, Desc: "data race on crdt state", Detail: map[string]any{"report": rep}}})
			} else if len(raceObs) < 5 {
				raceObs = append(raceObs, rep)
			}
		}
	}
	extra := map[string]any{"runs_by_engine": byEngine, "totals": sum, "runs_with_convergence_judged": convergence,
		"finding_keys": findingKeys, "race_runs": raceRuns, "races_observed": racesSeen, "races_on_crdt_state": racesDeciding,
		"tick_bound_N": tickBound}
	if len(raceObs) > 0 {
		extra["race_observations_not_deciding"] = raceObs
	}
	cleanup()
	r.Finish(common.Coverage{
		Evaluations:        evaluations + raceRuns,
		DistinctNontrivial: distinct.Len(),
		Rule: "behavioural runs (distinct generated plans) in which at least one writing section committed AND at least one writing section aborted, each after >=1 ticker tick and >=1 incoming merge " +
			"had been observed (hook events) between its first write and its outcome",
		Samples: samples.S,
		Floor:   r.Pick(10, 100),
		Extra:   extra,
	}, []string{
		"all replicas listen before the first update and stay up until the final reads: peers started late, stopped or unreachable are outside the statement and not exercised",
		"'eventually' is decided on counted events: a committed update must be dispatched towards every connected peer before the 4th tick of its node after the commit; received state must be merged within 100 ticks",
		"AWORSet runs never operate on one element from two nodes (C12 covers the data type's own anomalies); GCounter increments are distinct powers of two so that every state decodes into the set of writes it contains",
		"a data race decides the property only if both accesses are in (*crdt)/(CRDTRPCReceiver) code other than connection management",
	})
	_ = nontrivial
}

// C09 — Raft KV clients observe a linearizable key-value store.
//
// Histories are recorded at the client boundary (request taken from reqCh = call, response written to respCh =
// return) and checked with porcupine against a per-key register. (a) simsched runs of the shipped raftkvs
// archetypes (logical time = commit numbers, so real-time precedence is exact) under client-heavy load,
// injected client timeouts / retries, leader crashes and an adversarial policy that holds a retried request
// back until a competing Put was acknowledged; (b) real bootstrap clusters — see cluster.go.
package main

import (
	"fmt"
	"os"
	"sync"
	"time"

	"verifh/adapters"
	"verifh/common"
	"verifh/linz"
	"verifh/simsched"
)

func toOps(h []adapters.HistOp) []linz.Op {
	var ops []linz.Op
	for _, o := range h {
		ops = append(ops, linz.Op{Client: o.Client, Put: o.Put, Key: o.Key, Val: o.Val, Found: o.OK, Call: o.Call, Ret: o.Ret, Sends: len(o.Retries)})
	}
	return ops
}

// classify decides a history: strictly linearizable; or explained by the known defect (the store applies a
// retransmitted Put again: linearizable w.r.t. the at-least-once register); or a fresh violation.
func classify(r *common.Run, ops []linz.Op, what string, wit func() map[string]any) {
	switch linz.Check(ops, 60*time.Second) {
	case linz.Ok:
		return
	case linz.Unknown:
		r.Inconclusive("porcupine timeout: " + what)
		return
	}
	switch linz.CheckAtLeastOnce(ops, 60*time.Second) {
	case linz.Ok:
		r.Report("C09:retried-put-applied-twice", what+" is not linearizable, but is linearizable once each retransmitted Put may be applied again later (no duplicate suppression)", wit())
	case linz.Illegal:
		r.Report("C09:not-linearizable", what+" is not linearizable (also not under the at-least-once Put model)", wit())
	default:
		r.Inconclusive("porcupine timeout (at-least-once model): " + what)
	}
}

func holdRetryPolicy(rs *adapters.RaftSim) {
	// Adversarial: once some client has retransmitted a Put, starve the server-side handling of client
	// requests from that client... realised generically: starve one server group while a client retransmits to
	// it, so that the retransmission stays queued; release it after the other clients completed operations.
	s := rs.Sched
	base := s.Eligible
	held := ""
	until := 0
	s.Eligible = func(p *simsched.Proc, step int) bool {
		if base != nil && !base(p, step) {
			return false
		}
		if held == "" && step > 100 && step%97 == 0 {
			held = fmt.Sprintf("srv%d", 1+s.Rng.Intn(rs.Opts.NS))
			until = step + 60 + s.Rng.Intn(200)
		}
		if held != "" && step >= until {
			held = ""
		}
		if held != "" && p.Group == held && p.Arch.Name == "AServer" {
			return false // its mailbox keeps filling (client retransmissions included); it will process them late
		}
		return true
	}
}

func main() {
	r := common.Start("C09", "exploration")
	if common.ChildRole() == "cluster" {
		clusterChild()
		return
	}
	if r.Replay != "" {
		replay(r)
		return
	}
	scratch := common.Scratch("c09")
	defer os.RemoveAll(scratch)
	var mu sync.Mutex
	var distinct common.Distinct
	var samples common.SampleKeeper
	samples.N = 4
	runs := r.Pick(60, 5000)
	steps := r.Pick(1500, 3000)
	evals, totalOps, completed, openPuts, retried, crashes, leaderChanges := 0, 0, 0, 0, 0, 0, 0
	common.Parallel(runs, 8, func(i int) {
		seed := r.Seed*2_000_003 + int64(i)
		rng := r.Rand(fmt.Sprintf("c09-%d", i))
		ns := []int{3, 3, 5, 3, 2, 1}[i%6]
		o := adapters.RaftOpts{NS: ns, NC: 2 + rng.Intn(5), BufferSize: 3 + rng.Intn(4), FIFO: true, Exact: false,
			Keys: 1 + rng.Intn(3), PutPct: 60, BiasFD: 2, BiasLeaderTimeout: 3, BiasClientTimeout: uint(2 + rng.Intn(12)), CrashAfter: 100 + rng.Intn(500)}
		if ns >= 3 {
			o.MaxNodeFail = rng.Intn((ns-1)/2 + 1)
		}
		rs := adapters.Raftkvs(seed, o)
		policy := "uniform"
		if i%2 == 1 {
			policy = "hold-retransmissions"
			holdRetryPolicy(rs)
		}
		out := rs.Run(steps, false)
		h := rs.History()
		ops := toOps(h)
		mu.Lock()
		defer mu.Unlock()
		evals++
		totalOps += len(h)
		nDone, nRetried := 0, 0
		for _, op := range h {
			if op.Ret >= 0 {
				nDone++
			} else if op.Put {
				openPuts++
			}
			if len(op.Retries) > 1 {
				nRetried++
			}
		}
		completed += nDone
		retried += nRetried
		crashes += rs.Crashes
		if len(rs.Leaders) > 1 {
			leaderChanges += len(rs.Leaders) - 1
		}
		wit := func() map[string]any {
			return map[string]any{"setting": "sim", "opts": o, "policy": policy, "seed": seed, "history": h}
		}
		if out.Result.Err != nil && !out.Result.MonitorErr {
			r.Report("C09:sim:archetype-error", fmt.Sprintf("%v (seed=%d)", out.Result.Err, seed), wit())
		}
		mu.Unlock()
		classify(r, ops, fmt.Sprintf("sim history of %d operations (seed %d, %d servers, %d clients, policy %s)", len(h), seed, ns, o.NC, policy), wit)
		mu.Lock()
		if nDone >= 4 && o.NC >= 2 {
			distinct.Add(fmt.Sprintf("%d/%d/%s", ns, o.NC, out.Signature))
		}
		if i < 4 {
			samples.Add(map[string]any{"setting": "sim", "opts": o, "policy": policy, "history": h, "commits": out.Result.Steps})
		}
	})

	clusterEv := runClusters(r, scratch, &distinct, &samples)
	evals += clusterEv.runs

	r.Finish(common.Coverage{
		Evaluations:        evals,
		DistinctNontrivial: distinct.Len(),
		Rule:               "one evaluation = one recorded client history of the Raft KV store (simulated with logical time, or a real cluster) checked by porcupine per key; non-trivial = at least 2 concurrent clients and 4 completed operations; distinct by interleaving signature",
		Samples:            samples.S,
		Floor:              8,
		Extra: map[string]any{
			"sim_histories": runs, "operations_recorded": totalOps, "operations_completed": completed, "open_puts": openPuts,
			"operations_retransmitted": retried, "server_crashes": crashes, "leader_changes": leaderChanges, "cluster": clusterEv.extra,
		},
	}, []string{
		"operations without a response stay open (Puts) or are dropped (Gets)",
		"sim histories use commit numbers as time; per-link FIFO delivery as the property's quantifier says",
	})
}

// replay re-judges the stored client history with the same oracles.
func replay(r *common.Run) {
	key, _, wit, err := r.LoadReplay()
	if err != nil {
		fmt.Println("cannot read replay file:", err)
		os.Exit(3)
	}
	var ops []linz.Op
	if wit["setting"] == "cluster" || wit["setting"] == "tcp" {
		_ = common.Remarshal(wit["history"], &ops)
	} else {
		var h []adapters.HistOp
		_ = common.Remarshal(wit["history"], &h)
		ops = toOps(h)
	}
	if len(ops) > 0 {
		switch linz.Classify(ops, 120*time.Second) {
		case linz.VAtLeastOnce:
			r.Report("C09:retried-put-applied-twice", "stored history: not linearizable; linearizable against the at-least-once register", wit)
		case linz.VIllegal:
			r.Report("C09:not-linearizable", "stored history is not linearizable", wit)
		case linz.VUnknown:
			r.Inconclusive("porcupine timeout on the stored history")
		}
	} else {
		fmt.Println("replay file holds no history (key " + key + "): monitor violations of simulated runs are reproduced by re-running the check with the same VERIF_SEED")
	}
	r.FinishReplay(key)
}

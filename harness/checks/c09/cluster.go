package main

import (
	"encoding/json"
	"fmt"
	"os"
	"path/filepath"
	"time"

	"verifh/cluster"
	"verifh/common"
	"verifh/linz"
)

type clusterEvidence struct {
	runs  int
	extra map[string]any
}

func clusterChild() {
	var cfg cluster.RaftRun
	if err := json.Unmarshal([]byte(os.Getenv("C09_CFG")), &cfg); err != nil {
		panic(err)
	}
	cluster.RaftChild(cfg, os.Getenv("C09_OUT"), os.Getenv("C09_SCRATCH"))
}

// runClusters: real raftkvs clusters (bootstrap.NewServer/NewClient over 127.0.0.1, relaxed mailboxes, real
// timers and failure detectors), concurrent clients on few keys with unique Put values, small client timeouts so
// that retransmissions happen, crash-stop of a minority at a logical point; history recorded at the public
// Client.Run channels with one monotonic clock; operations without a reply stay open.
func runClusters(r *common.Run, scratch string, distinct *common.Distinct, samples *common.SampleKeeper) clusterEvidence {
	n := r.Pick(3, 60)
	ev := clusterEvidence{extra: map[string]any{}}
	ops, completed, retrans, crashes, unproductive := 0, 0, 0, 0, 0
	for i := 0; i < n; i++ {
		rng := r.Rand(fmt.Sprintf("c09-cluster-%d", i))
		ns := []int{3, 3, 5, 1, 3}[i%5]
		cfg := cluster.RaftRun{NS: ns, NC: 2 + rng.Intn(4), Persist: i%4 == 3, Seed: r.Seed*100 + int64(i), OpsPerClient: 20 + rng.Intn(15), Keys: 1 + rng.Intn(3), PutPct: 60,
			Scale: 3, ReqTimeout: time.Duration(12+rng.Intn(25)) * time.Millisecond, Disrupt: time.Duration(rng.Intn(25)) * time.Microsecond, MaxWall: 40 * time.Second}
		if ns >= 3 && i%3 != 2 {
			cfg.Crash = 1 + rng.Intn((ns-1)/2)
			cfg.CrashAfter = 5 + rng.Intn(40)
		}
		dir := filepath.Join(scratch, fmt.Sprintf("cl-%d", i))
		os.MkdirAll(dir, 0o755)
		out := filepath.Join(dir, "report.jsonl")
		buf, _ := json.Marshal(cfg)
		res := common.RunChild("", "cluster", dir, []string{"C09_CFG=" + string(buf), "C09_OUT=" + out, "C09_SCRATCH=" + dir}, cfg.MaxWall+60*time.Second)
		recs, complete, _ := common.ReadJSONL(out)
		os.RemoveAll(dir)
		if !complete || res.TimedOut {
			r.Inconclusive(fmt.Sprintf("cluster run %d (NS=%d) incomplete: timedout=%v exit=%d %s", i, ns, res.TimedOut, res.ExitCode, tailStr(res.Output, 300)))
			continue
		}
		var h []linz.Op
		done := 0
		for _, rec := range recs {
			switch rec["kind"] {
			case "op":
				op := linz.Op{Client: int(rec["client"].(float64)), Put: rec["put"].(bool), Key: rec["key"].(string), Val: rec["val"].(string), Found: rec["found"].(bool),
					Call: int64(rec["call"].(float64)), Ret: int64(rec["ret"].(float64)), Sends: int(rec["sends"].(float64))}
				h = append(h, op)
				if op.Ret >= 0 {
					done++
				}
				if op.Sends > 1 {
					retrans++
				}
			case "stats":
				crashes += int(rec["crashed"].(float64))
			}
		}
		if done == 0 {
			unproductive++ // no history to check; not evidence of anything (no liveness claim for arbitrary timeouts)
			continue
		}
		ev.runs++
		ops += len(h)
		completed += done
		classify(r, h, fmt.Sprintf("cluster history of %d operations (run %d, %d servers, %d clients, crash %d)", len(h), i, ns, cfg.NC, cfg.Crash),
			func() map[string]any { return map[string]any{"setting": "cluster", "cfg": cfg, "history": h} })
		if done >= 4 && cfg.NC >= 2 {
			distinct.Add(fmt.Sprintf("cluster-%d-%d-%d", i, ns, done))
		}
		if i < 2 {
			samples.Add(map[string]any{"setting": "cluster", "cfg": cfg, "history_head": h[:min(len(h), 12)], "completed": done})
		}
	}
	ev.extra = map[string]any{"runs_with_history": ev.runs, "operations_recorded": ops, "operations_completed": completed, "operations_retransmitted": retrans,
		"server_crashes": crashes, "unproductive_runs": unproductive}
	return ev
}

func tailStr(s string, n int) string {
	if len(s) > n {
		return s[len(s)-n:]
	}
	return s
}

// Private driver (not registered) validating the replicatedkv adapter (harness/adapters/replicatedkv.go).
//
//	GOWORK=/tmp/rkv/go.work go build -tags "verif rkv" -o /tmp/rkv/rkv ./harness/checks/rkv
//	/tmp/rkv/rkv exact <n> <seed>     n exact sims under rotating schedules, monitors off, every trace to TLC
//	/tmp/rkv/rkv mon <runs> <seed>    <runs> sims with unique ids + <runs>/4 exact ones, Go monitors on
//	/tmp/rkv/rkv all <seed>           both (24 exact traces, 200 monitored runs)
//
// exit 0: nothing but the listed known (spec-level) findings; exit 1: a TLC rejection, a Go error or a fresh monitor report.
package main

import (
	"encoding/json"
	"errors"
	"fmt"
	"math/rand"
	"os"
	"sort"
	"strconv"
	"strings"
	"sync"
	"time"

	"verifh/adapters"
	"verifh/common"
	"verifh/simsched"

	"github.com/DistCompiler/pgo/distsys"
)

// findings of the unchanged tree that are properties of the SPEC (see NOTES.md): two logical clients
var known = map[string]bool{
	"C16:replicatedkv:MessageStability:client-not-yet-heard-from-resets-minimum":                         true,
	"C16:replicatedkv:replicas-apply-different-orders:after-premature-stability":                         true,
	"C16:replicatedkv:replicas-apply-different-orders:put-of-disconnected-client-not-applied-everywhere": true,
	"tlc:invariant:MessageStability": true, // exact traces with two clients, monitors off: the same finding seen by TLC
}

var policies = []string{"uniform", "pct-bursts", "starve-group", "starve-group-windows", "run-to-completion", "alternate", "group-bias", "strict-priorities"}

func applyPolicy(s *simsched.Sched, policy int, rng *rand.Rand) {
	n := len(s.Procs)
	groups := map[string]bool{}
	var gl []string
	for _, p := range s.Procs {
		if !groups[p.Group] {
			groups[p.Group] = true
			gl = append(gl, p.Group)
		}
	}
	sort.Strings(gl)
	switch policies[policy%len(policies)] {
	case "pct-bursts":
		fav, until := rng.Intn(n), 0
		s.Weight = func(p *simsched.Proc, step int) int {
			if step >= until {
				fav, until = rng.Intn(n), step+3+rng.Intn(23)
			}
			if p.ID == fav {
				return 60
			}
			return 1
		}
	case "starve-group":
		g := gl[rng.Intn(len(gl))]
		s.Weight = func(p *simsched.Proc, step int) int {
			if p.Group == g {
				return 0
			}
			return 1
		}
	case "starve-group-windows":
		g, until := gl[rng.Intn(len(gl))], 20+rng.Intn(60)
		s.Weight = func(p *simsched.Proc, step int) int {
			if step >= until {
				g, until = gl[rng.Intn(len(gl))], step+20+rng.Intn(60)
			}
			if p.Group == g {
				return 0
			}
			return 1
		}
	case "run-to-completion":
		s.Weight = func(p *simsched.Proc, step int) int {
			if cur := s.Current(); cur != nil && cur.ID == p.ID {
				return 40
			}
			return 1
		}
	case "alternate":
		s.Weight = func(p *simsched.Proc, step int) int {
			if cur := s.Current(); cur != nil && cur.ID == p.ID {
				return 0
			}
			return 1
		}
	case "group-bias":
		bias := map[string]int{}
		for _, g := range gl {
			bias[g] = []int{1, 5, 25}[rng.Intn(3)]
		}
		s.Weight = func(p *simsched.Proc, step int) int { return bias[p.Group] }
	case "strict-priorities":
		prio := rng.Perm(n)
		s.Weight = func(p *simsched.Proc, step int) int {
			w := 1
			for i := 0; i < prio[p.ID] && i < 10; i++ {
				w *= 6
			}
			return w
		}
	}
	if base := s.Weight; base != nil {
		lastCommits, abortsThen := map[int]int{}, map[int]int{}
		s.Weight = func(p *simsched.Proc, step int) int {
			if c, ok := lastCommits[p.ID]; !ok || c != p.Commits {
				lastCommits[p.ID], abortsThen[p.ID] = p.Commits, p.Aborts
			}
			if p.Aborts-abortsThen[p.ID] >= 3 {
				return 0
			}
			return base(p, step)
		}
	}
}

func factory() adapters.Factory {
	for _, tag := range []string{"c16", "c02"} {
		found := false
		for _, f := range adapters.Factories(tag) {
			if f.Name == "replicatedkv" {
				found = true
			}
		}
		if !found {
			fmt.Println("factory replicatedkv not registered under tag", tag)
			os.Exit(3)
		}
	}
	for _, f := range adapters.Factories("") {
		if f.Name == "replicatedkv" {
			return f
		}
	}
	panic("unreachable")
}

type summary struct {
	mu                 sync.Mutex
	Labels             map[string]int
	AllLabels          map[string]bool
	Reports            map[string]int
	FirstWitness       map[string]string
	Fresh              int
	ExactRuns          int
	TLCAccepted        int
	TLCStates          int
	TLCRejected        int
	TLCInvariant       map[string]int
	TLCOther           map[string]int
	MonRuns            int
	Commits, Aborts    int
	EndedIdle          int
	Observed           map[string]int
	Configs            map[string]int
	Policies           map[string]int
	DistinctSignatures map[string]bool
}

func newSummary() *summary {
	return &summary{Labels: map[string]int{}, AllLabels: map[string]bool{}, Reports: map[string]int{}, FirstWitness: map[string]string{}, TLCInvariant: map[string]int{},
		TLCOther: map[string]int{}, Observed: map[string]int{}, Configs: map[string]int{}, Policies: map[string]int{}, DistinctSignatures: map[string]bool{}}
}

func (sm *summary) report(key, desc string) {
	sm.Reports[key]++
	if _, ok := sm.FirstWitness[key]; !ok {
		sm.FirstWitness[key] = desc
	}
	if !known[key] {
		sm.Fresh++
		fmt.Printf("VIOLATION %s: %s\n", key, desc)
	}
}

func (sm *summary) account(sim *adapters.Sim, out adapters.Outcome, policy int) {
	for _, l := range adapters.ArchetypeLabels(sim.Sched.Procs) {
		sm.AllLabels[l] = true
	}
	for l, n := range out.Labels {
		sm.Labels[l] += n
	}
	sm.Commits += out.Result.Steps
	sm.Aborts += out.Result.Aborts
	if out.Result.EndedIdle {
		sm.EndedIdle++
	}
	sm.Configs[fmt.Sprintf("NR=%v NC=%v BS=%v", sim.Params["NUM_REPLICAS"], sim.Params["NUM_CLIENTS"], sim.Params["BUFFER_SIZE"])]++
	sm.Policies[policies[policy%len(policies)]]++
	sm.DistinctSignatures[fmt.Sprintf("%v|%s", sim.Params["NUM_REPLICAS"], out.Signature)] = true
	if o, ok := sim.Params["observed"].(map[string]int); ok {
		for k, n := range o {
			sm.Observed[k] += n
		}
	}
}

func goError(sm *summary, out adapters.Outcome, what string) {
	if err := out.Result.Err; err != nil && !out.Result.MonitorErr {
		key := "go-error"
		if errors.Is(err, distsys.ErrAssertionFailed) {
			key = "C16:replicatedkv:assertion-failed"
		}
		who := ""
		if p := out.Result.ErrProc; p != nil {
			who = fmt.Sprintf("%s(%s) at %s: ", p.Arch.Name, p.Self.String(), out.Result.ErrLabel)
		}
		sm.report(key, fmt.Sprintf("%s: %s%v; last steps %v", what, who, err, lastN(out.StepLog, 8)))
	}
}

func lastN(s []string, n int) []string {
	if len(s) > n {
		return s[len(s)-n:]
	}
	return s
}

func without(list []string, x string) []string {
	var out []string
	for _, y := range list {
		if y != x {
			out = append(out, y)
		}
	}
	return out
}

func runExact(sm *summary, scratch string, n int, seed int64) {
	f := factory()
	common.Parallel(n, 6, func(i int) {
		sd := seed*7_000_003 + int64(i)
		rng := rand.New(rand.NewSource(sd ^ 0x5eed))
		sim := f.New(sd, true, rng)
		if d := os.Getenv("RKV_DIRECT"); d != "" { // "NR,NC,BS[,disconnectAfter]": a directed configuration instead of the factory's draw
			var nr, nc, bs int
			da := 1 << 30
			fmt.Sscanf(strings.ReplaceAll(d, ",", " "), "%d %d %d %d", &nr, &nc, &bs, &da)
			o := adapters.RkvOpts{NR: nr, NC: nc, BufferSize: bs, Exact: true, SameKey: true}
			for c := 0; c < nc; c++ {
				o.DisconnectAfter = append(o.DisconnectAfter, da+rng.Intn(40))
			}
			sim = adapters.Replicatedkv(sd, o)
		}
		applyPolicy(sim.Sched, i, rng)
		sim.Monitor = nil
		steps := 250
		if v, err := strconv.Atoi(os.Getenv("RKV_STEPS")); err == nil && v > 0 {
			steps = v
		}
		out := sim.Run(steps, true)
		what := fmt.Sprintf("exact seed=%d policy=%s %v", sd, policies[i%len(policies)], sim.Params)
		sm.mu.Lock()
		sm.ExactRuns++
		sm.account(sim, out, i)
		goError(sm, out, what)
		sm.mu.Unlock()
		if len(sim.SpecFiles) == 0 {
			sm.mu.Lock()
			sm.report("no-spec", fmt.Sprintf("%s: %v", what, sim.Params["spec_text"]))
			sm.mu.Unlock()
			return
		}
		if len(out.States) < 2 {
			return
		}
		v := sim.Validate(scratch, out.States, 10*time.Minute)
		for tries := 0; v.Kind == "invariant" && tries < 3; tries++ {
			sm.mu.Lock()
			sm.TLCInvariant[v.Invariant]++
			sm.report("tlc:invariant:"+v.Invariant, fmt.Sprintf("%s: TLC finds %s violated in state %d of the recorded trace (step %s)", what, v.Invariant, v.InvariantAt, at(out.StepLog, v.InvariantAt-2)))
			sm.mu.Unlock()
			sim.Invariants = without(sim.Invariants, v.Invariant)
			v = sim.Validate(scratch, out.States, 10*time.Minute)
		}
		sm.mu.Lock()
		defer sm.mu.Unlock()
		switch v.Kind {
		case "ok":
			sm.TLCAccepted++
			sm.TLCStates += len(out.States)
		case "step":
			sm.TLCRejected++
			sm.report("C02:replicatedkv:step-not-in-Next:"+labelOf(at(out.StepLog, v.RejectedAt-1)), fmt.Sprintf("%s: step %d (%s) is not a step of Next", what, v.RejectedAt, at(out.StepLog, v.RejectedAt-1)))
			if d := os.Getenv("RKV_DUMP"); d != "" {
				lo := v.RejectedAt - 1
				_ = os.WriteFile(d, []byte(out.States[lo]+"\n--------\n"+out.States[min(lo+1, len(out.States)-1)]+"\n"+v.Detail), 0o644)
			}
		case "init":
			sm.TLCRejected++
			sm.report("C02:replicatedkv:initial-state-not-Init", what+"\n"+out.States[0]+"\n"+v.Detail)
		default:
			sm.TLCOther[v.Kind]++
			sm.report("tlc:"+v.Kind, what+": "+tail(v.Detail, 1500))
		}
	})
}

func at(s []string, i int) string {
	if i >= 0 && i < len(s) {
		return s[i]
	}
	return "?"
}

func labelOf(stepLog string) string { return stepLog[strings.Index(stepLog, "@")+1:] }

func tail(s string, n int) string {
	if len(s) > n {
		return s[len(s)-n:]
	}
	return s
}

func runMonitored(sm *summary, runs int, seed int64) {
	f := factory()
	total := runs + runs/4
	common.Parallel(total, 8, func(i int) {
		exact := i >= runs
		sd := seed*1_000_003 + int64(i)
		rng := rand.New(rand.NewSource(sd ^ 0x5eed16))
		sim := f.New(sd, exact, rng)
		applyPolicy(sim.Sched, i, rng)
		var out adapters.Outcome
		func() {
			defer func() {
				if rec := recover(); rec != nil {
					out.Result.Err = fmt.Errorf("panic in harness: %v", rec)
				}
			}()
			out = sim.Run(sim.MaxSteps, false)
		}()
		what := fmt.Sprintf("seed=%d exact=%v policy=%s", sd, exact, policies[i%len(policies)])
		sm.mu.Lock()
		defer sm.mu.Unlock()
		sm.MonRuns++
		sm.account(sim, out, i)
		goError(sm, out, what)
		for _, v := range out.Violations {
			sm.report(v.Key, what+": "+v.Desc)
		}
	})
}

// confirm searches exact two-client runs (monitors on, states captured) for each known finding and hands the trace that
// ends in the reported state to TLC: accepted as a behaviour of Next = the specification itself allows the situation.
func confirm(sm *summary, scratch string, seed int64, tries int) {
	want := map[string]bool{}
	for k := range known {
		if strings.HasPrefix(k, "C16:") {
			want[k] = true
		}
	}
	type hit struct {
		key, desc string
		sim       *adapters.Sim
		out       adapters.Outcome
	}
	var hits []hit
	var mu sync.Mutex
	common.Parallel(tries, 8, func(i int) {
		mu.Lock()
		done := len(want) == 0
		mu.Unlock()
		if done {
			return
		}
		sd := seed*3_000_017 + int64(i)
		rng := rand.New(rand.NewSource(sd))
		o := adapters.RkvOpts{NR: 1 + rng.Intn(2), NC: 2, BufferSize: 2 + rng.Intn(2), Exact: true, SameKey: true, DisconnectAfter: []int{1 << 30, 1 << 30}}
		if i%2 == 0 {
			o.NR = 2
		}
		if i%3 == 0 {
			o.DisconnectAfter = []int{rng.Intn(150), 1 << 30}
		}
		sim := adapters.Replicatedkv(sd, o)
		applyPolicy(sim.Sched, i, rng)
		// tlc.CheckTrace lists TraceNotDone first, which masks the spec's invariants in the LAST state of a trace: let
		// the run go on after the first report (recorded with its step number) so that the state is not the last one
		mon := sim.Monitor
		var first *adapters.Violation
		firstAt := 0
		sim.Monitor = func(st simsched.Step) []adapters.Violation {
			if first == nil {
				if vs := mon(st); len(vs) > 0 {
					first, firstAt = &vs[0], st.N
				}
			}
			return nil
		}
		out := sim.Run(400, true)
		mu.Lock()
		defer mu.Unlock()
		if first != nil && want[first.Key] && firstAt < out.Result.Steps {
			delete(want, first.Key)
			hits = append(hits, hit{first.Key, fmt.Sprintf("seed=%d %+v: reported after commit %d (= state %d): %s", sd, o, firstAt, firstAt+1, first.Desc), sim, out})
		}
	})
	for k := range want {
		sm.report("confirm:not-found:"+k, fmt.Sprintf("no exact two-client run out of %d showed %s", tries, k))
	}
	for _, h := range hits {
		v := h.sim.Validate(scratch, h.out.States, 10*time.Minute)
		first := fmt.Sprintf("%s", v.Kind)
		if v.Kind == "invariant" {
			first = fmt.Sprintf("invariant %s violated in state %d of %d", v.Invariant, v.InvariantAt, len(h.out.States))
			h.sim.Invariants = without(h.sim.Invariants, v.Invariant)
			v = h.sim.Validate(scratch, h.out.States, 10*time.Minute)
		}
		fmt.Printf("CONFIRM %s\n  witness: %s\n  trace of %d states; TLC with the spec's invariants: %s; TLC on the steps alone: %s\n  last steps: %v\n", h.key, h.desc, len(h.out.States), first, v.Kind, lastN(h.out.StepLog, 6))
		if v.Kind != "ok" {
			sm.report("confirm:trace-not-accepted:"+h.key, fmt.Sprintf("TLC %s at %d: %s", v.Kind, v.RejectedAt, tail(v.Detail, 600)))
		}
	}
}

func main() {
	if len(os.Args) < 2 {
		fmt.Println("usage: rkv exact <n> <seed> | mon <runs> <seed> | all <seed>")
		os.Exit(3)
	}
	arg := func(i, d int) int {
		if len(os.Args) > i {
			if v, err := strconv.Atoi(os.Args[i]); err == nil {
				return v
			}
		}
		return d
	}
	scratch := common.Scratch("rkv")
	defer os.RemoveAll(scratch)
	defer adapters.CleanupGenerated()
	sm := newSummary()
	t0 := time.Now()
	switch os.Args[1] {
	case "exact":
		runExact(sm, scratch, arg(2, 8), int64(arg(3, 1)))
	case "mon":
		runMonitored(sm, arg(2, 200), int64(arg(3, 1)))
	case "one": // rkv one <seed> <index> : replay one monitored case of `mon` and print its steps
		f := factory()
		i := arg(3, 0)
		sd := int64(arg(2, 1))
		rng := rand.New(rand.NewSource(sd ^ 0x5eed16))
		sim := f.New(sd, os.Getenv("RKV_EXACT") != "", rng)
		applyPolicy(sim.Sched, i, rng)
		out := sim.Run(sim.MaxSteps, false)
		for k, l := range out.StepLog {
			fmt.Println(k+1, l)
		}
		fmt.Println(out.Violations, out.Result.Err)
	case "confirm":
		confirm(sm, scratch, int64(arg(2, 1)), arg(3, 4000))
	case "all":
		runExact(sm, scratch, 24, int64(arg(2, 1)))
		runMonitored(sm, 200, int64(arg(2, 1)))
	}
	var never []string
	for l := range sm.AllLabels {
		if sm.Labels[l] == 0 {
			never = append(never, l)
		}
	}
	sort.Strings(never)
	res := map[string]any{
		"exact_runs": sm.ExactRuns, "tlc_accepted": sm.TLCAccepted, "tlc_states_validated": sm.TLCStates, "tlc_rejected": sm.TLCRejected, "tlc_invariant_verdicts": sm.TLCInvariant, "tlc_other": sm.TLCOther,
		"monitored_runs": sm.MonRuns, "commits": sm.Commits, "aborted_attempts": sm.Aborts, "runs_ended_idle": sm.EndedIdle,
		"labels_total": len(sm.AllLabels), "labels_committed": sm.Labels, "labels_never_committed": never,
		"reports_by_key": sm.Reports, "first_witness": sm.FirstWitness, "fresh_reports": sm.Fresh, "observed_by_monitors": sm.Observed,
		"configurations": sm.Configs, "schedules": sm.Policies, "distinct_interleavings": len(sm.DistinctSignatures), "wall_s": time.Since(t0).Seconds(),
	}
	buf, _ := json.MarshalIndent(res, "", " ")
	fmt.Println(string(buf))
	os.RemoveAll(scratch)
	adapters.CleanupGenerated()
	if sm.Fresh > 0 {
		os.Exit(1)
	}
}

import sys,subprocess,re
name=sys.argv[1]
p='/tmp/wt-c19/distsys/resources/fd.go'  # a worktree of /repo with hooks.patch applied
s=open(p).read()
def rep(old,new,count=1):
    global s
    assert old in s, old
    s=s.replace(old,new,count)
if name=='M1': # timeout branch leaves previous state
    rep("""		} else if timeout {
			res.setState(failed)""","""		} else if timeout {""")
elif name=='M2': # finished mapped to alive
    rep("} else if state == alive {","} else if state == alive || state == finished {")
elif name=='M3': # no redial after ErrShutdown
    rep("""			if err == rpc.ErrShutdown {
				res.reDial = true
			}""","""			if err == rpc.ErrShutdown {
				res.reDial = false
			}""")
elif name=='M4': # ReadValue sleeps 3 intervals
    rep("time.Sleep(res.pullInterval)\n		return tla.Value{}, distsys.ErrCriticalSectionAborted","time.Sleep(3 * res.pullInterval)\n		return tla.Value{}, distsys.ErrCriticalSectionAborted")
elif name=='M5': # ReadValue clears the failure flag after reporting it
    rep("""	} else {
		return tla.ModuleTRUE, nil
	}
}

func (res *SingleFailureDetector) WriteValue""","""	} else {
		res.setState(alive)
		return tla.ModuleTRUE, nil
	}
}

func (res *SingleFailureDetector) WriteValue""")
elif name=='M6': # panic not recorded
    rep("""		if r := recover(); r != nil {
			m.setState(archetypeID, failed)""","""		if r := recover(); r != nil {""")
elif name=='M7': # dial error leaves state
    rep("""		if err != nil {
			res.setState(failed)
			if oldState != failed {
				log.Printf("fd change state: archetype = %v, old state = %v, "+
					"new state = %v. Due to dial error""","""		if err != nil {
			if oldState != failed {
				log.Printf("fd change state: archetype = %v, old state = %v, "+
					"new state = %v. Due to dial error""")
elif name=='M8': # rpc error leaves state
    rep("""		if err != nil {
			res.setState(failed)
			if oldState != failed {
				log.Printf("fd change state: archetype = %v, old state = %v, "+
					"new state = %v. Due to rpc call error""","""		if err != nil {
			if oldState != failed {
				log.Printf("fd change state: archetype = %v, old state = %v, "+
					"new state = %v. Due to rpc call error""")
elif name=='M9': # dropped lock in detector setState
    rep("""	res.lock.Lock()
	res.state = state
	res.lock.Unlock()""","""	res.state = state""")
elif name=='M10': # normal end not recorded
    rep("""	if err == nil {
		m.setState(archetypeID, finished)
	} else {""","""	if err == nil {
	} else {""")
elif name=='M11': # ReadValue waits for initialisation instead of aborting after one interval
    rep("""	state := res.getState()
	if state == uninitialized {
		time.Sleep(res.pullInterval)
		return tla.Value{}, distsys.ErrCriticalSectionAborted""","""	state := res.getState()
	for i := 0; state == uninitialized && i < 40; i++ {
		time.Sleep(res.pullInterval)
		state = res.getState()
	}
	if state == uninitialized {
		return tla.Value{}, distsys.ErrCriticalSectionAborted""")
elif name=='M12': # detector only polls while it believes the archetype alive (stops refreshing once failed) -> never recovers
    rep("""		oldState := res.getState()
		verifFDPollStart(res)""","""		oldState := res.getState()
		if oldState == failed {
			continue
		}
		verifFDPollStart(res)""")
elif name=='M13': # reply stored only when it differs from alive->? : off-by-one: failed reply ignored once
    rep("""			res.setState(reply)
			if oldState != reply {""","""			if reply != failed || oldState == failed {
				res.setState(reply)
			}
			if oldState != reply {""")
elif name=='M14': # monitor IsAlive answers alive for unknown/finished: maps finished to alive on monitor side
    rep("""	*reply = state
	return nil""","""	if state == finished {
		state = alive
	}
	*reply = state
	return nil""")
elif name=='M15': # dropped lock in Monitor.getState
    rep("""	m.lock.RLock()
	state, ok := m.states.Get(archetypeID)
	m.lock.RUnlock()""","""	state, ok := m.states.Get(archetypeID)""")
elif name=='M16': # RPC wait without timeout
    rep("""		case <-time.After(res.timeout):
			timeout = true
		}""","""		case <-time.After(1000 * res.timeout):
			timeout = true
		}""")
else:
    sys.exit("unknown")
open(p,'w').write(s)

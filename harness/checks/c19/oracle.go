package main

// Offline oracle over one scenario's event list. Only the ORDER of events (sequence numbers from one counter)
// is used; the informational timestamps are ignored.

import (
	"fmt"
	"sort"
	"strings"
)

const (
	timedMinPullMs   = 10
	pollGapIntervals = 6
)

const settleN = 5 // consecutive unsuccessful polls tolerated inside one alive+reachable epoch before "does not settle"

type Viol struct {
	Key    string         `json:"key"`
	Kind   string         `json:"kind"` // completeness accuracy settle read-changes read-blocks
	Desc   string         `json:"desc"`
	Detail map[string]any `json:"detail"`
}

type Stats struct {
	Polls             int            `json:"polls"`
	PollsByOutcome    map[string]int `json:"polls_by_outcome"`
	DeadPolls         map[string]int `json:"completeness_polls_by_cause"`
	AlivePolls        int            `json:"accuracy_polls"`
	PreSuccessFails   int            `json:"unsuccessful_polls_before_first_success_in_epoch"`
	MaxPreSuccess     int            `json:"max_unsuccessful_polls_before_first_success"`
	Reads             int            `json:"reads"`
	ReadsByResult     map[string]int `json:"reads_by_result"`
	ReadsDead         int            `json:"completeness_reads"`
	ReadsAlive        int            `json:"accuracy_reads"`
	ReadsNoVerdict    int            `json:"reads_without_verdict"`
	QuiescentGroups   int            `json:"quiescent_read_groups_with_2plus_reads"`
	BlockEvaluated    int            `json:"blocking_reads_evaluated"`
	MaxQ              int            `json:"max_quarter_ticks_inside_a_read"`
	MaxSentinelQ      int            `json:"max_quarter_ticks_inside_a_sentinel_sleep"`
	UninitReads       int            `json:"reads_in_uninitialised_state"`
	MonStates         map[string]int `json:"monitor_state_changes"`
	GenerousTimeouts  int            `json:"timeouts_in_generous_regime"`
	RunReturns        int            `json:"run_archetype_returns_checked"`
	RepliesAfterClose int            `json:"polls_answered_by_a_monitor_after_its_Close_returned"`
	TimedCandidates   int            `json:"scenarios_with_pull_interval_for_counted_time_verdicts"`
	GuardFail         map[string]int `json:"load_guard_failures"`
	TimedEvaluated    int            `json:"scenarios_whose_clocks_passed_the_load_guard"`
	GapsEvaluated     int            `json:"poll_gaps_evaluated"`
	MaxGapQ           int            `json:"max_quarter_ticks_in_a_poll_gap"`
	ServePanics       int            `json:"monitor_listenandserve_panics_on_close"`
}

func newStats() Stats {
	return Stats{PollsByOutcome: map[string]int{}, DeadPolls: map[string]int{}, ReadsByResult: map[string]int{}, MonStates: map[string]int{}, GuardFail: map[string]int{}}
}

func (s *Stats) add(o Stats) {
	s.Polls += o.Polls
	for k, v := range o.PollsByOutcome {
		s.PollsByOutcome[k] += v
	}
	for k, v := range o.DeadPolls {
		s.DeadPolls[k] += v
	}
	for k, v := range o.ReadsByResult {
		s.ReadsByResult[k] += v
	}
	for k, v := range o.MonStates {
		s.MonStates[k] += v
	}
	for k, v := range o.GuardFail {
		s.GuardFail[k] += v
	}
	s.AlivePolls += o.AlivePolls
	s.PreSuccessFails += o.PreSuccessFails
	if o.MaxPreSuccess > s.MaxPreSuccess {
		s.MaxPreSuccess = o.MaxPreSuccess
	}
	s.Reads += o.Reads
	s.ReadsDead += o.ReadsDead
	s.ReadsAlive += o.ReadsAlive
	s.ReadsNoVerdict += o.ReadsNoVerdict
	s.QuiescentGroups += o.QuiescentGroups
	s.BlockEvaluated += o.BlockEvaluated
	if o.MaxQ > s.MaxQ {
		s.MaxQ = o.MaxQ
	}
	if o.MaxSentinelQ > s.MaxSentinelQ {
		s.MaxSentinelQ = o.MaxSentinelQ
	}
	s.UninitReads += o.UninitReads
	s.GenerousTimeouts += o.GenerousTimeouts
	s.RunReturns += o.RunReturns
	s.RepliesAfterClose += o.RepliesAfterClose
	s.TimedCandidates += o.TimedCandidates
	s.TimedEvaluated += o.TimedEvaluated
	s.GapsEvaluated += o.GapsEvaluated
	if o.MaxGapQ > s.MaxGapQ {
		s.MaxGapQ = o.MaxGapQ
	}
	s.ServePanics += o.ServePanics
}

type OracleOut struct {
	TimedUndecided []string // keys of counted-time statements whose raw tick count met the bound but whose regular-tick run did not
	Viols          []Viol
	Inconclusive   []string
	Stats          Stats
}

type poll struct {
	start, end int64 // end == 0: never ended
	outcome    string
	reply      string
	post       string
	errText    string
	class      string // "" | nonalive | alive : what a ReadValue that can only have seen this poll must answer
	cause      string
}

type read struct {
	call, ret int64
	reader    int
	res       string
}

type stateEv struct {
	seq   int64
	state string
}

type pxInterval struct {
	from, to int64 // to == 0: open
	state    string
}

func normRes(r string) string {
	if strings.HasPrefix(r, "err:") {
		return "error"
	}
	if strings.HasPrefix(r, "value:") {
		return "non-boolean"
	}
	return r
}

func evalScenario(sc Scenario, evs []Ev) OracleOut {
	out := OracleOut{Stats: newStats()}
	st := &out.Stats
	const inf = int64(1) << 62

	var monListenCall, monUp, monCloseCall, monCloseRet, monDown int64
	archTL := map[int][]stateEv{}
	created := map[string]int64{}
	newCall := map[int]int64{}
	listenFailed := ""
	finalClose := false
	signalled := map[int]string{}
	polls := map[string][]*poll{}
	reads := map[string][]*read{}
	openRead := map[string]*read{} // key d/reader
	var px []pxInterval
	var qticks []int64
	var sentinel [][2]int64
	var sOpen int64
	var detOrder []string

	for _, e := range evs {
		switch e.K {
		case "mon-serve-ret":
			// ListenAndServe returned an error before the harness closed the monitor: the reserved port was taken
			// by somebody else (or Accept failed) — what the detectors talked to is not our monitor
			if e.Err != "" && !finalClose && monCloseCall == 0 {
				listenFailed = e.Err
			}
		case "mon-final-close-call":
			finalClose = true
		case "px-restore-failed":
			listenFailed = "proxy could not re-listen: " + e.Err
		case "mon-listen-call":
			if monListenCall == 0 {
				monListenCall = e.Seq
			}
		case "mon-up":
			if monUp == 0 {
				monUp = e.Seq
			}
		case "mon-close-call":
			if monCloseCall == 0 {
				monCloseCall = e.Seq
			}
		case "mon-serve-panic":
			st.ServePanics++
		case "mon-close-ret":
			if monCloseRet == 0 {
				monCloseRet = e.Seq
			}
		case "mon-down":
			if monDown == 0 {
				monDown = e.Seq
			}
		case "mon-state":
			archTL[e.A] = append(archTL[e.A], stateEv{e.Seq, e.St})
			st.MonStates[e.St]++
		case "arch-signal":
			signalled[e.A] = e.O
		case "arch-run-ret":
			// by the time RunArchetype has returned the monitor must have recorded an end state
			tl := archTL[e.A]
			last := "none"
			if len(tl) > 0 {
				last = tl[len(tl)-1].state
			}
			st.RunReturns++
			if last != "failed" && last != "finished" {
				out.Viols = append(out.Viols, Viol{Kind: "completeness",
					Key:    fmt.Sprintf("C19:completeness:monitor-records-%s-after-RunArchetype-returned:ending-%s", last, signalled[e.A]),
					Desc:   fmt.Sprintf("Monitor.RunArchetype returned (archetype ended by %s, error %q) but the monitor's last recorded state for it is %s", signalled[e.A], e.Err, last),
					Detail: map[string]any{"archetype": e.A, "run_ret": e.Seq, "ending": signalled[e.A], "monitor_timeline": fmt.Sprint(tl)}})
			}
		case "det-new-call":
			newCall[e.J] = e.Seq
		case "det-new-ret":
			if _, ok := created[e.D]; !ok {
				created[e.D] = newCall[e.J]
			}
		case "poll-start":
			if _, ok := polls[e.D]; !ok {
				detOrder = append(detOrder, e.D)
			}
			polls[e.D] = append(polls[e.D], &poll{start: e.Seq})
		case "poll-end":
			ps := polls[e.D]
			if len(ps) > 0 && ps[len(ps)-1].end == 0 {
				p := ps[len(ps)-1]
				p.end, p.outcome, p.reply, p.post, p.errText = e.Seq, e.O, e.Rp, e.St, e.Err
			}
		case "rv-call":
			openRead[fmt.Sprintf("%s/%d", e.D, e.R)] = &read{call: e.Seq, reader: e.R}
		case "rv-ret":
			k := fmt.Sprintf("%s/%d", e.D, e.R)
			if r := openRead[k]; r != nil {
				r.ret, r.res = e.Seq, normRes(e.Res)
				reads[e.D] = append(reads[e.D], r)
				delete(openRead, k)
			}
		case "px-up", "px-restore-done":
			px = append(px, pxInterval{from: e.Seq, state: "up"})
		case "px-cut-begin", "px-restore-begin":
			if n := len(px); n > 0 && px[n-1].to == 0 {
				px[n-1].to = e.Seq
			}
		case "px-cut-done":
			px = append(px, pxInterval{from: e.Seq, state: e.O})
		case "qtick":
			qticks = append(qticks, e.Seq)
		case "s-call":
			sOpen = e.Seq
		case "s-ret":
			if sOpen > 0 {
				sentinel = append(sentinel, [2]int64{sOpen, e.Seq})
				sOpen = 0
			}
		}
	}
	for d := range reads {
		if _, ok := polls[d]; !ok {
			detOrder = append(detOrder, d)
		}
	}

	archThroughout := func(a int, s, e int64) (string, int64) {
		tl := archTL[a]
		state, at := "none", int64(0)
		for _, x := range tl {
			if x.seq < s {
				state, at = x.state, x.seq
			} else if x.seq <= e {
				return "changing", 0
			}
		}
		return state, at
	}
	// returns class (reach | unreach | unknown), cause, epoch start
	path := func(d string, s, e int64) (string, string, int64) {
		monUnreach := ""
		if monListenCall == 0 || e < monListenCall {
			monUnreach = "monitor-not-listening-yet"
		} else if monDown > 0 && monUp > 0 && monUp < monCloseCall {
			// the listener was confirmed up before Close was called and confirmed refusing afterwards.
			// (Close before ListenAndServe reached net.Listen leaves the monitor listening: that one is reachable.)
			if c, ok := created[d]; ok && c > monDown {
				monUnreach = "monitor-closed-before-detector-start"
			}
		}
		monReach := monUp > 0 && s > monUp && (monCloseCall == 0 || e < monCloseCall)
		if !sc.Proxy {
			if monUnreach != "" {
				return "unreach", monUnreach, 0
			}
			if monReach {
				return "reach", "", monUp
			}
			return "unknown", "", 0
		}
		pxState, pxFrom := "", int64(0)
		for _, iv := range px {
			to := iv.to
			if to == 0 {
				to = inf
			}
			if s > iv.from && e < to {
				pxState, pxFrom = iv.state, iv.from
			}
		}
		if pxState == "cut" || pxState == "blackhole" {
			return "unreach", "proxy-" + pxState, 0
		}
		if monUnreach != "" {
			return "unreach", monUnreach, 0
		}
		if pxState == "up" && monReach {
			from := pxFrom
			if monUp > from {
				from = monUp
			}
			return "reach", "", from
		}
		return "unknown", "", 0
	}

	type epoch struct {
		success  bool
		fails    int
		reported bool
	}
	excerpt := func(d string, lo, hi int64) []Ev {
		var x []Ev
		for _, e := range evs {
			if e.Seq < lo || e.Seq > hi || e.K == "qtick" || e.K == "s-call" || e.K == "s-ret" {
				continue
			}
			if e.D != "" && e.D != d {
				continue
			}
			x = append(x, e)
			if len(x) >= 60 {
				break
			}
		}
		return x
	}
	addViol := func(v Viol) {
		if len(out.Viols) < 40 {
			out.Viols = append(out.Viols, v)
		}
	}
	timeoutInGenerous := false

	sort.Strings(detOrder)
	for _, d := range detOrder {
		ps := polls[d]
		epochs := map[string]*epoch{}
		watched := 0
		for _, e := range evs {
			if e.D == d && e.A != 0 {
				watched = e.A
				break
			}
		}
		for i, p := range ps {
			if p.end == 0 {
				continue
			}
			st.Polls++
			if monCloseRet > 0 && p.start > monCloseRet && p.outcome == "reply" {
				st.RepliesAfterClose++ // Monitor.Close leaves established connections served: by the restatement still "reachable"
			}
			oc := p.outcome
			if oc == "reply" {
				oc = "reply-" + p.reply
			}
			st.PollsByOutcome[oc]++
			aState, aSeq := archThroughout(watched, p.start, p.end)
			pc, pcause, reachFrom := path(d, p.start, p.end)
			dead, cause := false, ""
			if aState == "failed" || aState == "finished" {
				dead, cause = true, "archetype-"+aState
			} else if pc == "unreach" {
				dead, cause = true, pcause
			}
			ctx := func() map[string]any {
				lo := p.start - 40
				if i > 0 {
					lo = ps[i-1].start - 10
				}
				return map[string]any{"detector": d, "archetype": watched, "poll_start": p.start, "poll_end": p.end,
					"outcome": p.outcome, "reply": p.reply, "detector_state_after": p.post, "error": p.errText,
					"archetype_state_recorded": aState, "path": pc, "cause": cause, "events_around": excerpt(d, lo, p.end+5)}
			}
			switch {
			case dead:
				st.DeadPolls[cause]++
				p.class, p.cause = "nonalive", cause
				if p.post == "alive" || p.post == "uninitialized" {
					addViol(Viol{Kind: "completeness",
						Key:  fmt.Sprintf("C19:completeness:poll-%s-leaves-detector-%s:%s", oc, p.post, cause),
						Desc: fmt.Sprintf("a poll that started after %s ended with outcome %s and left the detector in state %s", cause, oc, p.post), Detail: ctx()})
				}
			case sc.Generous && aState == "alive" && pc == "reach":
				from := reachFrom
				if aSeq > from {
					from = aSeq
				}
				ek := fmt.Sprint(from)
				ep := epochs[ek]
				if ep == nil {
					ep = &epoch{}
					epochs[ek] = ep
				}
				st.AlivePolls++
				good := p.outcome == "reply" && p.reply == "alive" && p.post == "alive"
				switch {
				case good:
					ep.success = true
					p.class = "alive"
				case p.outcome == "timeout":
					timeoutInGenerous = true
					st.GenerousTimeouts++
				case p.outcome == "reply":
					// the monitor was reached; whatever it said, the archetype was recorded alive throughout
					addViol(Viol{Kind: "accuracy",
						Key:  fmt.Sprintf("C19:accuracy:poll-%s-leaves-detector-%s-while-alive-reachable", oc, p.post),
						Desc: fmt.Sprintf("archetype recorded alive and monitor reachable throughout the poll, yet the poll ended %s with detector state %s", oc, p.post), Detail: ctx()})
				case !ep.success:
					ep.fails++
					st.PreSuccessFails++
					if ep.fails > st.MaxPreSuccess {
						st.MaxPreSuccess = ep.fails
					}
					if ep.fails >= settleN && !ep.reported {
						ep.reported = true
						addViol(Viol{Kind: "settle",
							Key:  fmt.Sprintf("C19:settle:no-successful-poll-in-%d-polls-while-alive-reachable:%s", settleN, p.outcome),
							Desc: fmt.Sprintf("%d consecutive polls inside one interval in which the archetype was recorded alive and the monitor was reachable all ended %s (%s); the detector does not settle", settleN, p.outcome, p.errText), Detail: ctx()})
					}
				default:
					addViol(Viol{Kind: "accuracy",
						Key:  fmt.Sprintf("C19:accuracy:poll-%s-leaves-detector-%s-while-alive-reachable", oc, p.post),
						Desc: fmt.Sprintf("after a successful poll, with the archetype still recorded alive and the monitor still reachable, a poll ended %s (%s) with detector state %s", oc, p.errText, p.post), Detail: ctx()})
				}
			}
		}

		// ---- reads
		rs := reads[d]
		sort.Slice(rs, func(i, j int) bool { return rs[i].call < rs[j].call })
		for _, r := range rs {
			st.Reads++
			st.ReadsByResult[r.res]++
			var cands []*poll
			var last *poll
			for _, p := range ps {
				if p.end != 0 && p.end < r.call {
					last = p
				} else if p.start < r.ret && (p.end == 0 || p.end > r.call) {
					cands = append(cands, p)
				}
			}
			if last != nil {
				cands = append([]*poll{last}, cands...)
			} else {
				st.UninitReads++
			}
			if len(cands) == 0 {
				st.ReadsNoVerdict++
				continue
			}
			class := cands[0].class
			for _, p := range cands {
				if p.class != class || p.end == 0 {
					class = ""
				}
			}
			if last == nil {
				class = "" // answers before the first completed poll are free (the detector may still be uninitialised)
			}
			det := func() map[string]any {
				return map[string]any{"detector": d, "archetype": watched, "read_call": r.call, "read_ret": r.ret, "result": r.res,
					"candidate_polls": len(cands), "cause": cands[0].cause, "events_around": excerpt(d, cands[0].start-5, r.ret+2)}
			}
			switch class {
			case "nonalive":
				st.ReadsDead++
				if r.res != "TRUE" {
					addViol(Viol{Kind: "completeness",
						Key:  fmt.Sprintf("C19:completeness:read-%s-after-poll-ended-nonalive:%s", r.res, cands[0].cause),
						Desc: fmt.Sprintf("ReadValue answered %s although every poll it can have seen started after %s", r.res, cands[0].cause), Detail: det()})
				}
			case "alive":
				st.ReadsAlive++
				if r.res != "FALSE" {
					addViol(Viol{Kind: "accuracy",
						Key:  fmt.Sprintf("C19:accuracy:read-%s-while-alive-reachable", r.res),
						Desc: fmt.Sprintf("ReadValue answered %s although every poll it can have seen ended alive with archetype alive and monitor reachable", r.res), Detail: det()})
				}
			default:
				st.ReadsNoVerdict++
			}
		}

		// ---- ReadValue never changes what is reported: reads inside one poll-free gap agree
		gapOf := func(r *read) int {
			// gap k = after poll k-1 ended and before poll k started; -1 if the read overlaps a poll
			k := sort.Search(len(ps), func(i int) bool { return ps[i].start > r.call })
			// ps[k-1] started before the call
			if k > 0 && (ps[k-1].end == 0 || ps[k-1].end > r.call) {
				return -1
			}
			if k < len(ps) && ps[k].start < r.ret {
				return -1
			}
			return k
		}
		groups := map[int][]*read{}
		for _, r := range rs {
			if g := gapOf(r); g >= 0 {
				groups[g] = append(groups[g], r)
			}
		}
		for g, grp := range groups {
			if len(grp) < 2 {
				continue
			}
			st.QuiescentGroups++
			for i := 1; i < len(grp); i++ {
				if grp[i].res != grp[i-1].res {
					addViol(Viol{Kind: "read-changes",
						Key:  fmt.Sprintf("C19:read-changes-report:%s-then-%s-with-no-poll-between", grp[i-1].res, grp[i].res),
						Desc: fmt.Sprintf("two ReadValue calls with no poll of the detector between them answered %s and then %s", grp[i-1].res, grp[i].res),
						Detail: map[string]any{"detector": d, "gap_index": g, "first": map[string]any{"call": grp[i-1].call, "ret": grp[i-1].ret, "result": grp[i-1].res}, "second": map[string]any{"call": grp[i].call, "ret": grp[i].ret, "result": grp[i].res},
							"events_around": excerpt(d, grp[i-1].call-10, grp[i].ret+2)}})
					break
				}
			}
		}
	}

	// ---- counted-time statements, in quarter-interval ticks of the harness metronome. Only for pull intervals
	// >= 10 ms. A span is measured as the longest run of consecutive REGULAR ticks inside it: two ticks are
	// consecutive-regular when the recorder's timestamps put them at most 2.5 quarters apart. The timestamps are
	// only used to discard ticks (a process-wide stall or a dropped tick breaks the run and can only make a span
	// look shorter), never to measure the span itself.
	guardOK := false
	var tickT []int64
	var breakAfter []int // prefix count of irregular gaps: breakAfter[i] = #irregular gaps among ticks[0..i]
	if sc.PullMs >= timedMinPullMs {
		st.TimedCandidates++
		quarterUs := int64(sc.PullMs) * 1000 / 4
		for _, e := range evs {
			if e.K == "qtick" {
				tickT = append(tickT, e.T)
			}
		}
		breakAfter = make([]int, len(tickT))
		regular := 0
		for i := 1; i < len(tickT); i++ {
			breakAfter[i] = breakAfter[i-1]
			if (tickT[i]-tickT[i-1])*2 > 5*quarterUs {
				breakAfter[i]++
			} else {
				regular++
			}
		}
		switch {
		case len(tickT) < 20:
			st.GuardFail["too-few-ticks"]++
		case regular*2 < len(tickT):
			st.GuardFail["under-half-of-the-ticks-regular"]++
		default:
			guardOK = true
		}
	}
	if guardOK {
		st.TimedEvaluated++
		// count = length of the longest run of regular ticks strictly inside (a, b)
		count := func(a, b int64) int {
			lo := sort.Search(len(qticks), func(i int) bool { return qticks[i] > a })
			hi := sort.Search(len(qticks), func(i int) bool { return qticks[i] >= b })
			best, run := 0, 0
			for i := lo; i < hi; i++ {
				if i > lo && breakAfter[i] != breakAfter[i-1] {
					run = 0
				}
				run++
				if run > best {
					best = run
				}
			}
			return best
		}
		// raw = every tick inside (a, b), regular or not: used only to tell "the re-run could not have shown it"
		// (raw criterion met, regular-run criterion not) from "the re-run shows it does not happen"
		raw := func(a, b int64) int {
			lo := sort.Search(len(qticks), func(i int) bool { return qticks[i] > a })
			hi := sort.Search(len(qticks), func(i int) bool { return qticks[i] >= b })
			return hi - lo
		}
		for _, s := range sentinel {
			if q := count(s[0], s[1]); q > st.MaxSentinelQ {
				st.MaxSentinelQ = q
			}
		}
		// (a) ReadValue blocks for at most one polling interval
		type agg struct {
			total, exceed, maxQ int
			rawExceed           int
			worst               *read
			det                 string
		}
		classes := map[string]*agg{"initialised": {}, "uninitialised": {}}
		for _, d := range detOrder {
			ps := polls[d]
			for _, r := range reads[d] {
				q := count(r.call, r.ret)
				st.BlockEvaluated++
				if q > st.MaxQ {
					st.MaxQ = q
				}
				class := "uninitialised"
				for _, p := range ps {
					if p.end != 0 && p.end < r.call {
						class = "initialised"
						break
					}
				}
				a := classes[class]
				a.total++
				if raw(r.call, r.ret) >= 8 {
					a.rawExceed++
				}
				if q >= 8 && q > st.MaxSentinelQ+2 {
					a.exceed++
					if q > a.maxQ {
						a.maxQ, a.worst, a.det = q, r, d
					}
				}
			}
		}
		for class, a := range classes {
			// a single long read is what a descheduled goroutine looks like; a defect shows up systematically
			if a.exceed >= 3 || (class == "uninitialised" && a.exceed >= 1 && 2*a.exceed >= a.total) {
				addViol(Viol{Kind: "read-blocks",
					Key:  "C19:read-blocks-more-than-one-interval:" + class,
					Desc: fmt.Sprintf("%d of %d ReadValue calls in the %s state spanned >= 8 quarter-interval ticks (two full polling intervals), the longest %d, while concurrent sentinel sleeps of exactly one interval spanned at most %d", a.exceed, a.total, class, a.maxQ, st.MaxSentinelQ),
					Detail: map[string]any{"detector": a.det, "read_call": a.worst.call, "read_ret": a.worst.ret, "result": a.worst.res, "quarter_ticks": a.maxQ,
						"exceeding": a.exceed, "total_in_class": a.total, "max_sentinel_quarter_ticks": st.MaxSentinelQ, "events_around": excerpt(a.det, a.worst.call-5, a.worst.ret+2)}})
			} else if a.rawExceed >= 3 || (class == "uninitialised" && a.rawExceed >= 1 && 2*a.rawExceed >= a.total) {
				out.TimedUndecided = append(out.TimedUndecided, "C19:read-blocks-more-than-one-interval:"+class)
			}
		}
		// (a') a poll ends within its timeout: it must not span timeout + pollGapIntervals intervals
		var clockEnd int64
		if len(qticks) > 0 {
			clockEnd = qticks[len(qticks)-1]
		}
		limitQ := 4 * ((sc.TimeoutMs+sc.PullMs-1)/sc.PullMs + pollGapIntervals)
		for _, d := range detOrder {
			for i, p := range polls[d] {
				to := p.end
				if to == 0 {
					to = clockEnd
				}
				if to <= p.start {
					continue
				}
				if q := count(p.start, to); q < limitQ {
					if raw(p.start, to) >= limitQ {
						out.TimedUndecided = append(out.TimedUndecided, "C19:completeness:poll-outlives-its-timeout")
					}
				} else {
					addViol(Viol{Kind: "poll-hangs",
						Key:    "C19:completeness:poll-outlives-its-timeout",
						Desc:   fmt.Sprintf("a poll of detector %s (timeout %d ms, interval %d ms) spanned %d quarter-interval ticks, more than timeout + %d intervals (%d)", d, sc.TimeoutMs, sc.PullMs, q, pollGapIntervals, limitQ),
						Detail: map[string]any{"detector": d, "poll_start": p.start, "poll_end": p.end, "quarter_ticks": q, "limit": limitQ, "poll_index": i, "events_around": excerpt(d, p.start-20, p.start+20)}})
					break
				}
			}
		}
		// (b) the detector keeps polling: no gap of pollGapIntervals intervals between the end of one poll and the start of the next
		var teardown int64
		for _, e := range evs {
			if e.K == "teardown" {
				teardown = e.Seq
			}
		}
		for _, d := range detOrder {
			ps := polls[d]
			from := created[d]
			for i := 0; i <= len(ps); i++ {
				to := teardown
				if i < len(ps) {
					to = ps[i].start
				}
				if from > 0 && to > from {
					q := count(from, to)
					st.GapsEvaluated++
					if q > st.MaxGapQ {
						st.MaxGapQ = q
					}
					if q < 4*pollGapIntervals {
						if raw(from, to) >= 4*pollGapIntervals {
							out.TimedUndecided = append(out.TimedUndecided, "C19:settle:detector-stops-polling")
						}
					} else {
						addViol(Viol{Kind: "poll-gap",
							Key:    "C19:settle:detector-stops-polling",
							Desc:   fmt.Sprintf("detector %s started no poll during %d quarter-interval ticks (%d polling intervals) although it was neither inside a poll nor closed", d, q, q/4),
							Detail: map[string]any{"detector": d, "gap_from": from, "gap_to": to, "quarter_ticks": q, "polls_before": i, "events_around": excerpt(d, from-10, from+30)}})
						break
					}
				}
				if i < len(ps) {
					from = ps[i].end
					if from == 0 {
						break
					}
				}
			}
		}
	}

	if listenFailed != "" {
		// harness-level problem (port collision with another process): nothing in this scenario is trustworthy
		return OracleOut{Stats: newStats(), Inconclusive: []string{fmt.Sprintf("scenario %d: monitor/proxy could not listen on its reserved port (%s); scenario discarded", sc.ID, listenFailed)}}
	}
	if timeoutInGenerous {
		out.Inconclusive = append(out.Inconclusive, fmt.Sprintf("scenario %d: a poll timed out under the generous (%d ms) timeout with archetype alive and monitor reachable — loaded machine, accuracy not decided", sc.ID, sc.TimeoutMs))
	}
	return out
}

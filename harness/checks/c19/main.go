// C19 — failure detector is complete and settles to accurate answers.
//
// Workload: real resources.Monitor + resources.SingleFailureDetector (directly and through the FailureDetector
// IncMap read by a real archetype) on 127.0.0.1, hand-built archetypes run through Monitor.RunArchetype that end by
// Done / assertion error / resource error / panic / Stop, generated orders of monitor start, archetype start/end,
// detector start, monitor Close, and a harness TCP proxy that cuts listener+connections, black-holes, or delays replies.
//
// Oracle (offline, order of events from one sequence counter; hook H4 gives monitor state changes and poll
// start/end with outcome):
//
//	completeness  every poll that starts after the archetype's end state was recorded (or after the monitor became
//	              unreachable: proxy cut / blackhole done, monitor not yet listening, monitor closed before the detector
//	              was created) leaves the detector non-alive, and every ReadValue that can only have seen such polls
//	              returns TRUE;
//	accuracy      (generous timeout, no injected delay only) inside an interval in which the archetype is recorded
//	              alive and the monitor is reachable, from the first successful poll on every poll ends alive and every
//	              ReadValue that can only have seen such polls returns FALSE; at most settleN-1 unsuccessful polls may
//	              precede the first successful one;
//	read-only     ReadValue calls with no poll of that detector between them agree;
//	non-blocking  a ReadValue spans at most one polling interval, counted in quarter-interval ticks of a harness
//	              metronome (longest run of regular ticks) and calibrated against concurrent sentinel sleeps of exactly
//	              one interval; the same counting checks that detectors keep polling and that polls end within their
//	              timeout. These three are confirmed by re-running the scenario before they are reported.
package main

import (
	"bufio"
	"encoding/json"
	"fmt"
	"io"
	"log"
	"math/rand"
	"os"
	"path/filepath"
	"regexp"
	"sort"
	"strings"
	"sync"
	"time"

	"verifh/common"
)

// ---------------------------------------------------------------------------------------------
// scenario generation

var families = []string{"random", "det-before-mon", "arch-before-mon", "mon-close", "cut", "cut-restore",
	"blackhole", "slow", "late-detector", "random", "arch-after-det", "cut-restore"}

var endings = []string{"done", "assert", "reserr", "panic", "stop", "none"}

func pause(rng *rand.Rand) float64 {
	switch x := rng.Intn(10); {
	case x < 2:
		return 0
	case x < 5:
		return rng.Float64()
	default:
		return 1 + 3*rng.Float64()
	}
}

type before struct{ a, b string } // step key a must come before step key b

func stepKey(s Step) string {
	if s.Op == "arch-start" || s.Op == "arch-end" || s.Op == "det-start" {
		return fmt.Sprintf("%s:%d", s.Op, s.Arg)
	}
	return s.Op
}

func genScenario(rng *rand.Rand, id int) Scenario {
	fam := families[id%len(families)]
	sc := Scenario{ID: id, Family: fam, Seed: rng.Int63()}
	sc.PullMs = 2 + rng.Intn(19)
	sc.Generous = rng.Intn(2) == 0
	sc.Proxy = rng.Intn(3) != 0
	switch fam {
	case "cut":
		sc.Proxy = true
	case "cut-restore":
		sc.Proxy, sc.Generous = true, true
	case "blackhole", "slow":
		sc.Proxy, sc.Generous = true, false
	}
	if sc.Generous {
		sc.TimeoutMs = 2000
		sc.FinalWait = 8 + 2*rng.Float64()
	} else {
		sc.TimeoutMs = 1 + rng.Intn(50)
		sc.FinalWait = 4 + 2*rng.Float64()
	}
	nA := 1 + rng.Intn(3)
	for i := 0; i < nA; i++ {
		sc.Archs = append(sc.Archs, ArchSpec{Ending: endings[(id/len(families)+id+i*5+rng.Intn(2))%len(endings)]})
	}
	if fam == "cut-restore" {
		sc.Archs[0].Ending = "none"
	}
	nD := 1 + rng.Intn(3)
	for j := 0; j < nD; j++ {
		a := 1 + rng.Intn(nA)
		if j == 0 {
			a = 1
		}
		sc.Dets = append(sc.Dets, DetSpec{Arch: a, Watcher: rng.Intn(3) == 0, Readers: 1 + rng.Intn(2)})
	}
	// tracks
	var tracks [][]Step
	mon := []Step{{Op: "mon-start"}}
	if fam == "mon-close" || fam == "late-detector" || rng.Intn(6) == 0 {
		mon = append(mon, Step{Op: "mon-close"})
	}
	tracks = append(tracks, mon)
	for i, a := range sc.Archs {
		t := []Step{{Op: "arch-start", Arg: i + 1}}
		if a.Ending != "none" {
			t = append(t, Step{Op: "arch-end", Arg: i + 1})
		}
		tracks = append(tracks, t)
	}
	for j := range sc.Dets {
		tracks = append(tracks, []Step{{Op: "det-start", Arg: j + 1}})
	}
	if sc.Proxy {
		var t []Step
		kind := fam
		if kind != "cut" && kind != "cut-restore" && kind != "blackhole" && kind != "slow" {
			opts := []string{"none", "cut", "cut-restore"}
			if !sc.Generous {
				opts = append(opts, "blackhole", "slow")
			}
			kind = opts[rng.Intn(len(opts))]
		}
		switch kind {
		case "cut":
			t = []Step{{Op: "cut"}}
		case "cut-restore":
			t = []Step{{Op: "cut"}, {Op: "restore"}}
			if rng.Intn(3) == 0 {
				t = append(t, Step{Op: "cut"}, Step{Op: "restore"})
			}
		case "blackhole":
			t = []Step{{Op: "blackhole"}}
			if rng.Intn(2) == 0 {
				t = append(t, Step{Op: "restore"})
			}
		case "slow":
			t = []Step{{Op: "delay", Arg: sc.TimeoutMs + 1 + rng.Intn(2*sc.TimeoutMs+5)}}
			if rng.Intn(2) == 0 {
				t = append(t, Step{Op: "delay", Arg: 0})
			}
		}
		if len(t) > 0 {
			tracks = append(tracks, t)
		}
	}
	var cons []before
	switch fam {
	case "det-before-mon":
		cons = []before{{"det-start:1", "mon-start"}}
	case "arch-before-mon":
		cons = []before{{"arch-start:1", "mon-start"}}
	case "arch-after-det":
		cons = []before{{"mon-start", "det-start:1"}, {"det-start:1", "arch-start:1"}}
	case "late-detector":
		cons = []before{{"mon-close", "det-start:1"}}
	case "mon-close":
		cons = []before{{"det-start:1", "mon-close"}, {"arch-start:1", "mon-close"}}
	case "cut", "blackhole", "slow":
		first := map[string]string{"cut": "cut", "blackhole": "blackhole", "slow": "delay"}[fam]
		cons = []before{{"mon-start", "det-start:1"}, {"arch-start:1", "det-start:1"}, {"det-start:1", first}}
	case "cut-restore":
		cons = []before{{"mon-start", "det-start:1"}, {"arch-start:1", "det-start:1"}, {"det-start:1", "cut"}}
	}
	var steps []Step
	for try := 0; try < 200; try++ {
		steps = steps[:0]
		idx := make([]int, len(tracks))
		remaining := 0
		for _, t := range tracks {
			remaining += len(t)
		}
		for remaining > 0 {
			k := rng.Intn(remaining)
			for ti, t := range tracks {
				left := len(t) - idx[ti]
				if k < left {
					steps = append(steps, t[idx[ti]])
					idx[ti]++
					break
				}
				k -= left
			}
			remaining--
		}
		ok := true
		pos := map[string]int{}
		for i, s := range steps {
			if _, seen := pos[stepKey(s)]; !seen {
				pos[stepKey(s)] = i
			}
		}
		for _, c := range cons {
			pa, oka := pos[c.a]
			pb, okb := pos[c.b]
			if oka && okb && pa > pb {
				ok = false
			}
		}
		if ok {
			break
		}
	}
	sc.Steps = make([]Step, len(steps))
	copy(sc.Steps, steps)
	for i := range sc.Steps {
		sc.Steps[i].Pause = pause(rng)
		// give detectors a chance to poll before the world changes under them
		if op := sc.Steps[i].Op; (op == "cut" || op == "blackhole" || op == "delay" || op == "mon-close" || op == "restore") && sc.Steps[i].Pause < 1.5 {
			sc.Steps[i].Pause += 1.5
		}
		// ... but also flap quickly: a restore that comes before the detector has noticed the cut
		if sc.Steps[i].Op == "restore" && rng.Intn(2) == 0 {
			sc.Steps[i].Pause = 0.4 * rng.Float64()
		}
	}
	return sc
}

func (sc Scenario) signature() string {
	var sb strings.Builder
	fmt.Fprintf(&sb, "%s|g=%v|p=%v|", sc.Family, sc.Generous, sc.Proxy)
	for _, a := range sc.Archs {
		sb.WriteString(a.Ending + ",")
	}
	sb.WriteString("|")
	for _, d := range sc.Dets {
		fmt.Fprintf(&sb, "%d%v,", d.Arch, d.Watcher)
	}
	sb.WriteString("|")
	for _, s := range sc.Steps {
		sb.WriteString(stepKey(s) + ">")
	}
	return sb.String()
}

// ---------------------------------------------------------------------------------------------
// child

type resultLine struct {
	Kind     string    `json:"kind"` // scenario | end
	Scenario *Scenario `json:"scenario,omitempty"`
	Events   []Ev      `json:"events,omitempty"`
	Problem  string    `json:"problem,omitempty"`
}

func childMain() {
	log.SetOutput(io.Discard)
	if len(os.Args) < 3 {
		fmt.Println("child: need <spec> <out>")
		os.Exit(3)
	}
	buf, err := os.ReadFile(os.Args[1])
	if err != nil {
		fmt.Println("child:", err)
		os.Exit(3)
	}
	var scs []Scenario
	if err := json.Unmarshal(buf, &scs); err != nil {
		fmt.Println("child:", err)
		os.Exit(3)
	}
	f, err := os.Create(os.Args[2])
	if err != nil {
		fmt.Println("child:", err)
		os.Exit(3)
	}
	w := bufio.NewWriterSize(f, 1<<20)
	enc := json.NewEncoder(w)
	installHooks()
	for i := range scs {
		evs, problem := runScenario(scs[i])
		if problem == "hung" {
			// a polling loop is stuck; its history is complete enough for the oracle, but this process is not
			// clean any more: stop here, the parent runs the remaining scenarios in a fresh child
			_ = enc.Encode(resultLine{Kind: "scenario", Scenario: &scs[i], Events: evs})
			w.Flush()
			f.Close()
			os.Exit(0)
		}
		_ = enc.Encode(resultLine{Kind: "scenario", Scenario: &scs[i], Events: evs, Problem: problem})
		w.Flush()
	}
	_ = enc.Encode(resultLine{Kind: "end"})
	w.Flush()
	f.Close()
}

// ---------------------------------------------------------------------------------------------
// parent

type scResult struct {
	sc       Scenario
	evs      []Ev
	complete bool
	problem  string
	race     bool
}

func runBatch(dir string, n int, scs []Scenario, race bool, extraEnv ...string) (res []scResult, childNote string, raceLogs []string) {
	remaining := scs
	for round := 0; len(remaining) > 0 && round < 4; round++ {
		r, note, logs, ended := runBatchOnce(dir, n, round, remaining, race, extraEnv)
		raceLogs = append(raceLogs, logs...)
		if note != "" {
			childNote += note + " "
		}
		done := map[int]bool{}
		for _, x := range r {
			done[x.sc.ID] = true
		}
		res = append(res, r...)
		var rest []Scenario
		for _, sc := range remaining {
			if !done[sc.ID] {
				rest = append(rest, sc)
			}
		}
		if ended || len(r) == 0 {
			remaining = rest
			break
		}
		remaining = rest
	}
	for _, sc := range remaining {
		res = append(res, scResult{sc: sc, complete: false, problem: "child did not finish this scenario", race: race})
	}
	return
}

func runBatchOnce(dir string, n, round int, scs []Scenario, race bool, extraEnv []string) (res []scResult, childNote string, raceLogs []string, ended bool) {
	spec := filepath.Join(dir, fmt.Sprintf("batch-%d-%d.json", n, round))
	outp := filepath.Join(dir, fmt.Sprintf("batch-%d-%d.out.jsonl", n, round))
	buf, _ := json.Marshal(scs)
	if err := os.WriteFile(spec, buf, 0o644); err != nil {
		panic(err)
	}
	exe := ""
	env := append([]string{}, extraEnv...)
	watchdog := time.Duration(60+10*len(scs)) * time.Second
	if race {
		exe = os.Getenv("VERIF_RACE_BIN")
		lp := filepath.Join(dir, fmt.Sprintf("race-%d-%d", n, round))
		env = append(env, "GORACE=halt_on_error=0 log_path="+lp)
		watchdog *= 3
	}
	cr := common.RunChild(exe, "batch", dir, env, watchdog, spec, outp)
	if race {
		logs, _ := filepath.Glob(filepath.Join(dir, fmt.Sprintf("race-%d-%d.*", n, round)))
		raceLogs = logs
	}
	if f, err := os.Open(outp); err == nil {
		rd := bufio.NewReaderSize(f, 1<<20)
		dec := json.NewDecoder(rd)
		for {
			var l resultLine
			if err := dec.Decode(&l); err != nil {
				break
			}
			if l.Kind == "end" {
				ended = true
				break
			}
			if l.Kind == "scenario" && l.Scenario != nil {
				res = append(res, scResult{sc: *l.Scenario, evs: l.Events, complete: l.Problem == "", problem: l.Problem, race: race})
			}
		}
		f.Close()
	}
	if race && cr.ExitCode == 66 { // the race runtime's exit code when it reported races
		cr.ExitCode = 0
	}
	if cr.TimedOut || cr.ExitCode != 0 {
		childNote = fmt.Sprintf("batch %d.%d (race=%v): child exit=%d watchdog=%v ended=%v; output tail: %s", n, round, race, cr.ExitCode, cr.TimedOut, ended, tailStr(cr.Output, 600))
	}
	os.Remove(spec)
	os.Remove(outp)
	os.Remove(cr.OutPath)
	return
}

func tailStr(s string, n int) string {
	if len(s) > n {
		return s[len(s)-n:]
	}
	return s
}

var (
	reRaceFn  = regexp.MustCompile(`^\s+([^\s]+)\(`)
	reProtect = regexp.MustCompile(`resources\.\(\*SingleFailureDetector\)\.(getState|setState|ReadValue)|resources\.\(\*Monitor\)\.(getState|setState)|\(\*MonitorRPCReceiver\)\.IsAlive`)
)

// parseRaces returns, per report, a signature built from the top frames of the two stacks and whether both
// accesses happen inside the functions that guard the state C19 is about.
func parseRaces(path string) (sigs []string, protected []bool) {
	buf, err := os.ReadFile(path)
	if err != nil {
		return
	}
	for _, blk := range strings.Split(string(buf), "WARNING: DATA RACE")[1:] {
		if i := strings.Index(blk, "Goroutine "); i >= 0 { // cut the goroutine-creation stacks
			blk = blk[:i]
		}
		var stacks [][]string
		var curStack []string
		for _, line := range strings.Split(blk, "\n") {
			if strings.Contains(line, " by goroutine ") || strings.Contains(line, " by main goroutine") {
				if curStack != nil {
					stacks = append(stacks, curStack)
				}
				curStack = []string{}
				continue
			}
			if m := reRaceFn.FindStringSubmatch(line); m != nil && curStack != nil {
				curStack = append(curStack, m[1])
			}
		}
		if curStack != nil {
			stacks = append(stacks, curStack)
		}
		if len(stacks) < 2 {
			continue
		}
		top := func(s []string) string {
			if len(s) == 0 {
				return "?"
			}
			return s[0]
		}
		prot := func(s []string) bool {
			for i, f := range s {
				if i >= 3 {
					break
				}
				if reProtect.MatchString(f) {
					return true
				}
			}
			return false
		}
		a, b := top(stacks[0]), top(stacks[1])
		if a > b {
			a, b = b, a
		}
		sigs = append(sigs, a+" <-> "+b)
		protected = append(protected, prot(stacks[0]) && prot(stacks[1]))
	}
	return
}

type witness struct {
	Scenario  Scenario `json:"scenario"`
	Race      bool     `json:"race_build"`
	Violation Viol     `json:"violation"`
	Events    []Ev     `json:"events"`
}

func main() {
	if common.ChildRole() == "batch" {
		childMain()
		return
	}
	r := common.Start("C19", "exploration")
	if r.Replay != "" {
		replay(r)
		return
	}
	rng := r.Rand("c19-scenarios")
	nNormal := r.Pick(108, 1500)
	nRace := r.Pick(12, 120)
	if os.Getenv("VERIF_RACE_BIN") == "" {
		nRace = 0
		r.Note("VERIF_RACE_BIN not set: no race children were run")
	}
	workers := r.Pick(8, 16)
	perBatch := 6

	dir := common.Scratch("c19")
	defer os.RemoveAll(dir)

	var all []Scenario
	for i := 0; i < nNormal+nRace; i++ {
		all = append(all, genScenario(rng, i))
	}
	type batch struct {
		scs  []Scenario
		race bool
	}
	var batches []batch
	for i := 0; i < nNormal; i += perBatch {
		j := i + perBatch
		if j > nNormal {
			j = nNormal
		}
		batches = append(batches, batch{scs: all[i:j]})
	}
	for i := nNormal; i < len(all); i += perBatch {
		j := i + perBatch
		if j > len(all) {
			j = len(all)
		}
		batches = append(batches, batch{scs: all[i:j], race: true})
	}

	var mu sync.Mutex
	total := newStats()
	var distinct common.Distinct
	var samples common.SampleKeeper
	samples.N = 4
	evaluated, incomplete, blockingUnconfirmed, blockingExamined := 0, 0, 0, 0
	familiesSeen := map[string]int{}
	endingsSeen := map[string]int{}
	regimes := map[string]int{}
	raceSigs := map[string]int{}
	raceReports := 0
	violKinds := map[string]int{}

	type pendingViol struct {
		sr scResult
		v  Viol
	}
	var pending []pendingViol

	handle := func(sr scResult, dir string, nextBatchID *int) {
		if !sr.complete {
			mu.Lock()
			incomplete++
			mu.Unlock()
			r.Inconclusive(fmt.Sprintf("scenario %d (%s): %s", sr.sc.ID, sr.sc.Family, sr.problem))
			return
		}
		out := evalScenario(sr.sc, sr.evs)
		// timing-sensitive sub-verdict: confirm by re-running the same scenario in fresh children
		var keep []Viol
		for _, v := range out.Viols {
			if v.Kind != "read-blocks" && v.Kind != "poll-gap" && v.Kind != "poll-hangs" {
				keep = append(keep, v)
				continue
			}
			mu.Lock()
			pending = append(pending, pendingViol{sr: sr, v: v})
			mu.Unlock()
		}
		for _, v := range keep {
			mu.Lock()
			violKinds[v.Kind]++
			mu.Unlock()
			r.Report(v.Key, v.Desc, witness{Scenario: sr.sc, Race: sr.race, Violation: v, Events: sr.evs})
		}
		for _, s := range out.Inconclusive {
			r.Inconclusive(s)
		}
		if dd := os.Getenv("C19_DEBUG_DIR"); dd != "" && len(out.Inconclusive) > 0 {
			buf, _ := json.Marshal(witness{Scenario: sr.sc, Race: sr.race, Events: sr.evs})
			_ = os.WriteFile(filepath.Join(dd, fmt.Sprintf("inconclusive-%d-%d.json", r.Seed, sr.sc.ID)), buf, 0o644)
		}
		mu.Lock()
		defer mu.Unlock()
		evaluated++
		if len(out.Inconclusive) > 0 {
			return
		}
		total.add(out.Stats)
		verdictPolls := out.Stats.AlivePolls
		for _, v := range out.Stats.DeadPolls {
			verdictPolls += v
		}
		if verdictPolls > 0 && out.Stats.ReadsDead+out.Stats.ReadsAlive > 0 {
			distinct.Add(sr.sc.signature())
			familiesSeen[sr.sc.Family]++
			for _, a := range sr.sc.Archs {
				endingsSeen[a.Ending]++
			}
			regime := "tiny-timeout"
			if sr.sc.Generous {
				regime = "generous-timeout"
			}
			if sr.sc.Proxy {
				regime += "+proxy"
			}
			regimes[regime]++
			if len(samples.S) < samples.N {
				var hist []Ev
				for _, e := range sr.evs {
					if e.K != "qtick" && e.K != "s-call" && e.K != "s-ret" && len(hist) < 80 {
						hist = append(hist, e)
					}
				}
				samples.S = append(samples.S, map[string]any{"scenario": sr.sc, "stats": out.Stats, "first_events": hist})
			}
		}
	}

	nextID := len(batches) + 1000
	common.Parallel(len(batches), workers, func(i int) {
		b := batches[i]
		res, note, raceLogs := runBatch(dir, i, b.scs, b.race)
		if note != "" {
			r.Note("%s", note)
		}
		for _, lp := range raceLogs {
			sigs, prot := parseRaces(lp)
			mu.Lock()
			for k, s := range sigs {
				raceReports++
				raceSigs[s]++
				if prot[k] {
					mu.Unlock()
					r.Report("C19:race-on-detector-or-monitor-state:"+s, "data race between two accesses that both sit inside the functions guarding Monitor.states / SingleFailureDetector.state: "+s,
						map[string]any{"race_log": tailStr(readFile(lp), 6000)})
					mu.Lock()
				}
			}
			mu.Unlock()
			os.Remove(lp)
		}
		for _, sr := range res {
			handle(sr, dir, &nextID)
		}
	})

	// counted-time candidates are confirmed one at a time, after the parallel phase (less self-inflicted load):
	// the re-runs only count when their own clocks pass the load guard; up to 5 attempts to get 2 that do
	for n, pv := range pending {
		if n >= 3 { // enough of these were examined in this run
			break
		}
		blockingExamined++
		sr, v := pv.sr, pv.v
		reproduced, refuted := 0, 0
		for k := 0; k < 5 && reproduced < 2 && refuted == 0; k++ {
			nextID++
			rr, _, _ := runBatch(dir, nextID, []Scenario{sr.sc}, sr.race)
			if len(rr) != 1 || len(rr[0].evs) == 0 {
				continue
			}
			o2 := evalScenario(rr[0].sc, rr[0].evs)
			if o2.Stats.TimedEvaluated == 0 {
				continue // too loaded to say anything
			}
			hit := false
			for _, v2 := range o2.Viols {
				if v2.Key == v.Key {
					hit = true
				}
			}
			undecided := false
			for _, k2 := range o2.TimedUndecided {
				if k2 == v.Key {
					undecided = true
				}
			}
			switch {
			case hit:
				reproduced++
			case undecided: // stalls broke the tick runs: this re-run could not have shown it
			default:
				refuted++
			}
		}
		switch {
		case reproduced >= 2 && refuted == 0:
			violKinds[v.Kind]++
			r.Report(v.Key, v.Desc, witness{Scenario: sr.sc, Race: sr.race, Violation: v, Events: sr.evs})
		case refuted > 0:
			blockingUnconfirmed++
			r.Note("scenario %d: %s (%v quarter ticks) once but not when the scenario was re-run — scheduling noise, not reported", sr.sc.ID, v.Key, v.Detail["quarter_ticks"])
		default:
			r.Inconclusive(fmt.Sprintf("scenario %d: candidate %s (%v quarter ticks) could not be confirmed or refuted: only %d of 5 re-runs had clocks that passed the load guard (machine too loaded)", sr.sc.ID, v.Key, v.Detail["quarter_ticks"], reproduced))
		}
	}

	raceList := []string{}
	for s, n := range raceSigs {
		raceList = append(raceList, fmt.Sprintf("%s (x%d)", s, n))
	}
	sort.Strings(raceList)
	if len(raceList) > 0 {
		r.Note("data races reported by -race children (observations; they do not touch Monitor.states / SingleFailureDetector.state and do not decide C19): %s", strings.Join(raceList, "; "))
	}

	os.RemoveAll(dir) // Finish exits the process: deferred calls do not run
	if total.ServePanics > 0 {
		r.Note("observation (outside C19's statement): Monitor.ListenAndServe panicked with a nil dereference %d times when Monitor.Close ran concurrently with its accept loop (Close sets m.listener = nil, the loop then calls m.listener.Accept()); recovered by the harness", total.ServePanics)
	}
	r.Finish(common.Coverage{
		Evaluations:        evaluated,
		DistinctNontrivial: distinct.Len(),
		Rule: "one case = one generated scenario (pull interval 2-20 ms, timeout 1-50 ms or generous 2 s, direct or via harness proxy, 1-3 archetypes with endings done/assert/reserr/panic/stop/none, 1-3 detectors (direct or read by a watcher archetype), a random merge of monitor/archetype/detector/proxy step tracks under the family's ordering constraints, random pauses) executed against the real Monitor/SingleFailureDetector; " +
			"non-trivial = the oracle took at least one poll-level verdict (completeness or accuracy premise satisfied) AND at least one ReadValue-level verdict in it, and the scenario was not inconclusive; distinct = distinct (family, regime, endings, detector layout, step order) signatures",
		Samples: samples.S,
		Floor:   r.Pick(30, 300),
		Extra: map[string]any{
			"scenarios_generated":                    len(all),
			"scenarios_incomplete":                   incomplete,
			"race_scenarios":                         nRace,
			"observed":                               total,
			"families_with_verdicts":                 familiesSeen,
			"archetype_endings_in_verdict_scenarios": endingsSeen,
			"regimes":                                regimes,
			"races_observed":                         raceList,
			"race_reports":                           raceReports,
			"blocking_violations_not_reproduced":     blockingUnconfirmed,
			"violations_by_kind":                     violKinds,
		},
	}, []string{
		"Restatement: 'within a bounded number of polling intervals' is decided as an order statement over hook events: every poll that STARTS after the end state was recorded by the monitor (or after the monitor became unreachable) must leave the detector non-alive, and every ReadValue that can only have seen such polls must return TRUE. No wall-clock bound is used.",
		"'Monitor unreachable' means: no byte can reach it — the harness proxy in front of it has closed its listener and every established connection (or black-holes all traffic), or the monitor is not listening yet, or it was closed before the detector was created (refused dial confirmed from outside). A Monitor whose Close() was called but whose established connections still answer is treated as REACHABLE-or-unknown: no completeness verdict is taken from it.",
		"Accuracy verdicts only in configurations with a 2 s RPC timeout and no injected delay; a poll that times out there makes the scenario inconclusive. The statement's allowance 'from the first successful poll on' is encoded per alive+reachable interval: unsuccessful polls before the first successful one are tolerated, but 5 in a row inside one such interval are reported as 'does not settle'.",
		"'Never delays by more than one polling interval' is counted in quarter-interval ticks of a harness ticker (only for pull intervals >= 10 ms); a span is the longest run of consecutive regular ticks inside it (ticks more than 2.5 quarters apart by the recorder's timestamps break a run: stalls and dropped ticks can only shorten a span). A read exceeds if it spans >= 8 quarter ticks and more than 2 above the largest concurrent sentinel Sleep(pullInterval); a violation needs >= 3 exceeding reads in one scenario (or at least half of the uninitialised-state reads) and must reproduce with the same key in two re-runs of the scenario in fresh processes (a re-run whose tick runs were broken by stalls counts as neither). The same counting decides 'the detector keeps polling' (no poll start during 6 intervals outside a poll) and 'a poll ends within its timeout' (timeout + 6 intervals).",
		"Monitor, detectors, proxy and archetypes live in one OS process and talk over 127.0.0.1 TCP; crash of a whole OS process is represented by the proxy cut.",
		"Schedules are whatever the Go scheduler and the generated pauses produced; orders are sampled, not exhausted.",
	})
}

func readFile(p string) string {
	b, _ := os.ReadFile(p)
	return string(b)
}

func replay(r *common.Run) {
	buf, err := os.ReadFile(r.Replay)
	if err != nil {
		fmt.Println("cannot read replay file:", err)
		os.Exit(3)
	}
	var f struct {
		Key     string  `json:"key"`
		Witness witness `json:"witness"`
	}
	if err := json.Unmarshal(buf, &f); err != nil {
		fmt.Println("cannot parse replay file:", err)
		os.Exit(3)
	}
	n := 0
	if len(f.Witness.Events) > 0 {
		out := evalScenario(f.Witness.Scenario, f.Witness.Events)
		for _, v := range out.Viols {
			n++
			r.Report(v.Key, v.Desc, witness{Scenario: f.Witness.Scenario, Race: f.Witness.Race, Violation: v, Events: f.Witness.Events})
		}
	} else {
		fmt.Println("replay file holds no event history (race report): nothing to re-evaluate")
	}
	r.Finish(common.Coverage{Evaluations: 1, DistinctNontrivial: n, Rule: "replay of one recorded scenario history through the offline oracle"}, nil)
}

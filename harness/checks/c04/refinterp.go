package main

// Reference interpreter of PlusCal call/return semantics, independent of distsys:
//
//	call P(args) with return label r:  evaluate args; push [pc |-> r, v |-> current value of every
//	     parameter and local v of P]; bind parameters; run the locals' initialisers; pc := first label of P
//	return:                            pop the head frame, restore every saved variable, pc := saved pc
//	call P(args); return (tail call):  return, immediately followed by call with the popped return label
//
// One storage slot per procedure variable (as in PlusCal). A ref parameter holds the identity of the
// variable it is bound to; reads and writes go to that variable.
//
// PcalMode reproduces one observable peculiarity of the real PlusCal translator (found by the TLC
// calibration, see NOTES.md): a tail call out of procedure P into a DIFFERENT procedure restores P's local
// variables but not P's parameters. It is used only when the interpreter itself is calibrated against
// pcal+TLC; the statement of the property (every activation sees its own argument values) is what the real
// runtime is compared with.

import (
	"fmt"
	"sort"
	"strings"
)

// RVal is a reference value: K 'i' integer, 'd' defaultInitValue, 's' string (identity of a referenced variable).
type RVal struct {
	K byte   `json:"-"`
	N int32  `json:"-"`
	S string `json:"-"`
}

func (v RVal) String() string {
	switch v.K {
	case 'i':
		return fmt.Sprintf("%d", v.N)
	case 'd':
		return "defaultInitValue"
	case 's':
		return fmt.Sprintf("%q", v.S)
	case 'm':
		return "<missing>"
	}
	return "<other:" + v.S + ">"
}

func (v RVal) MarshalJSON() ([]byte, error) { return []byte(fmt.Sprintf("%q", v.String())), nil }

func (v RVal) class() string {
	switch v.K {
	case 'i':
		return "int"
	case 'd':
		return "default"
	case 's':
		return "string"
	case 'm':
		return "missing"
	}
	return "other"
}

func rInt(n int32) RVal  { return RVal{K: 'i', N: n} }
func rStr(s string) RVal { return RVal{K: 's', S: s} }

var rDefault = RVal{K: 'd'}

type Frame struct {
	Proc     string          `json:"procedure"`
	PC       string          `json:"pc"`
	Saved    map[string]RVal `json:"saved"`
	Pristine map[string]bool `json:"-"`
}

type State struct {
	PC       string
	Vars     map[string]RVal
	Pristine map[string]bool // procedure variable untouched since the initial state
	Stack    []Frame         // head first
}

func (s *State) clone() *State {
	n := &State{PC: s.PC, Vars: make(map[string]RVal, len(s.Vars)), Pristine: make(map[string]bool, len(s.Pristine))}
	for k, v := range s.Vars {
		n.Vars[k] = v
	}
	for k, v := range s.Pristine {
		if v {
			n.Pristine[k] = true
		}
	}
	n.Stack = append([]Frame{}, s.Stack...) // frames are immutable once pushed
	return n
}

type Access struct {
	Cell string `json:"cell"`
	Val  RVal   `json:"val"`
}

// Step is the effect of executing one label from a given state.
type Step struct {
	Label  string   `json:"label"`
	Term   string   `json:"term"` // goto | call | tail | ret | done
	Callee string   `json:"callee,omitempty"`
	Reads  []Access `json:"reads,omitempty"`
	Writes []Access `json:"writes,omitempty"`
	Next   *State   `json:"-"`
	Done   bool     `json:"done,omitempty"` // the label is A.Done
}

type labelInfo struct {
	scope string // archetype name or procedure (instance) name
	proc  *Proc  // nil for archetype labels
	lb    *Label
}

type Interp struct {
	P        *Program
	PcalMode bool
	labels   map[string]*labelInfo
	St       *State
	// specialised programs: cells that procedure code may name directly
	steps int
}

func NewInterp(p *Program, pcalMode bool) *Interp {
	in := &Interp{P: p, PcalMode: pcalMode, labels: map[string]*labelInfo{}}
	st := &State{Vars: map[string]RVal{}, Pristine: map[string]bool{}}
	for _, x := range p.Locals {
		st.Vars[p.Arch+"."+x.Name] = rInt(x.Init)
	}
	for _, x := range p.ValParams {
		st.Vars[p.Arch+"."+x.Name] = rInt(x.Init)
	}
	for _, x := range p.RefParams {
		st.Vars[p.Arch+"."+x.Name] = rStr("&" + p.Arch + "." + x.Name)
		st.Vars["&"+p.Arch+"."+x.Name] = rInt(x.Init)
	}
	for i := range p.Labels {
		in.labels[p.Arch+"."+p.Labels[i].Name] = &labelInfo{scope: p.Arch, lb: &p.Labels[i]}
	}
	for i := range p.Procs {
		pr := &p.Procs[i]
		for _, x := range pr.Params {
			st.Vars[pr.Name+"."+x.Name] = rDefault
			st.Pristine[pr.Name+"."+x.Name] = true
		}
		for _, x := range pr.Locals {
			if x.Init != nil {
				st.Vars[pr.Name+"."+x.Name] = rInt(*x.Init)
			} else {
				st.Vars[pr.Name+"."+x.Name] = rDefault
			}
			st.Pristine[pr.Name+"."+x.Name] = true
		}
		for j := range pr.Labels {
			in.labels[pr.Name+"."+pr.Labels[j].Name] = &labelInfo{scope: pr.Name, proc: pr, lb: &pr.Labels[j]}
		}
	}
	st.PC = p.Arch + "." + p.Labels[0].Name
	in.St = st
	return in
}

// cell resolves a variable name of the scope to the storage cell it denotes in state st.
func (in *Interp) cell(st *State, li *labelInfo, name string) (string, error) {
	if isAbs(name) {
		return name, nil
	}
	full := li.scope + "." + name
	isRef := false
	if li.proc != nil {
		isRef = li.proc.isRef(name)
	} else {
		isRef = in.P.archIsRef(name)
	}
	if !isRef {
		return full, nil
	}
	ptr, ok := st.Vars[full]
	if !ok || ptr.K != 's' {
		return "", &evalErr{fmt.Sprintf("ref parameter %s holds %v, not a variable identity", full, ptr)}
	}
	if _, ok := st.Vars[ptr.S]; !ok {
		return "", &evalErr{fmt.Sprintf("ref parameter %s refers to unknown variable %q", full, ptr.S)}
	}
	return ptr.S, nil
}

type evalErr struct{ msg string }

func (e *evalErr) Error() string { return e.msg }

func (in *Interp) eval(st *State, li *labelInfo, e *Expr, reads *[]Access) (RVal, error) {
	if e.K == "c" {
		return rInt(e.C), nil
	}
	c, err := in.cell(st, li, e.V)
	if err != nil {
		return RVal{}, err
	}
	v := st.Vars[c]
	*reads = append(*reads, Access{c, v})
	if e.K == "v" {
		return v, nil
	}
	if v.K != 'i' {
		return RVal{}, &evalErr{fmt.Sprintf("%s + %d with %s = %v", e.V, e.C, c, v)}
	}
	if e.K == "v+w" {
		c2, err := in.cell(st, li, e.W)
		if err != nil {
			return RVal{}, err
		}
		w := st.Vars[c2]
		*reads = append(*reads, Access{c2, w})
		if w.K != 'i' {
			return RVal{}, &evalErr{fmt.Sprintf("%s + %s with %s = %v", e.V, e.W, c2, w)}
		}
		return rInt(v.N + w.N), nil
	}
	return rInt(v.N + e.C), nil
}

func (in *Interp) fullLabel(li *labelInfo, short string) string {
	if isAbs(short) {
		return short
	}
	return li.scope + "." + short
}

// Peek computes the step the current label takes, without changing the interpreter's state.
func (in *Interp) Peek() (*Step, error) {
	return in.PeekFrom(in.St)
}

func (in *Interp) PeekFrom(cur *State) (*Step, error) {
	if cur.PC == in.P.Arch+".Done" {
		return &Step{Label: cur.PC, Term: "done", Done: true, Next: cur}, nil
	}
	li, ok := in.labels[cur.PC]
	if !ok {
		return nil, fmt.Errorf("pc %q is not a label of the program", cur.PC)
	}
	st := cur.clone()
	step := &Step{Label: cur.PC}
	for i := range li.lb.Ops {
		op := &li.lb.Ops[i]
		if op.K != "set" {
			continue
		}
		v, err := in.eval(st, li, op.E, &step.Reads)
		if err != nil {
			return nil, err
		}
		c, err := in.cell(st, li, op.T)
		if err != nil {
			return nil, err
		}
		st.Vars[c] = v
		delete(st.Pristine, c)
		step.Writes = append(step.Writes, Access{c, v})
	}
	t := &li.lb.Term
	for t.K == "if" {
		c, err := in.cell(st, li, t.CV)
		if err != nil {
			return nil, err
		}
		v := st.Vars[c]
		step.Reads = append(step.Reads, Access{c, v})
		if v.K != 'i' {
			return nil, &evalErr{fmt.Sprintf("%s > 0 with %s = %v", t.CV, c, v)}
		}
		if v.N > 0 {
			t = t.Then
		} else {
			t = t.Else
		}
	}
	step.Term = t.K
	switch t.K {
	case "goto", "done":
		st.PC = in.fullLabel(li, t.L)
	case "ret":
		if err := in.doReturn(st, li, false); err != nil {
			return nil, err
		}
	case "call", "tail":
		callee := in.P.proc(t.P)
		if callee == nil {
			return nil, fmt.Errorf("unknown procedure %s", t.P)
		}
		step.Callee = callee.Name
		if len(t.A) != len(callee.Params) {
			return nil, fmt.Errorf("arity mismatch calling %s", t.P)
		}
		args := make([]RVal, len(t.A))
		for i, a := range t.A {
			if a.Ref {
				if isAbs(a.V) {
					args[i] = rStr(a.V)
				} else if (li.proc != nil && li.proc.isRef(a.V)) || (li.proc == nil && in.P.archIsRef(a.V)) {
					args[i] = st.Vars[li.scope+"."+a.V] // pass the identity on
				} else {
					args[i] = rStr(li.scope + "." + a.V)
				}
				continue
			}
			v, err := in.eval(st, li, a.E, &step.Reads)
			if err != nil {
				return nil, err
			}
			args[i] = v
		}
		ret := ""
		if t.K == "call" {
			ret = in.fullLabel(li, t.L)
		} else {
			if len(st.Stack) == 0 {
				return nil, fmt.Errorf("tail call with an empty stack")
			}
			ret = st.Stack[0].PC
			sameProc := li.proc != nil && li.proc.Name == callee.Name
			if err := in.doReturn(st, li, in.PcalMode && !sameProc); err != nil {
				return nil, err
			}
		}
		fr := Frame{Proc: callee.Name, PC: ret, Saved: map[string]RVal{}, Pristine: map[string]bool{}}
		for _, sv := range callee.stateVars() {
			fr.Saved[sv] = st.Vars[sv]
			if st.Pristine[sv] {
				fr.Pristine[sv] = true
			}
		}
		st.Stack = append([]Frame{fr}, st.Stack...)
		for i, prm := range callee.Params {
			st.Vars[callee.Name+"."+prm.Name] = args[i]
			delete(st.Pristine, callee.Name+"."+prm.Name)
		}
		for _, l := range callee.Locals {
			if l.Init != nil {
				st.Vars[callee.Name+"."+l.Name] = rInt(*l.Init)
			} else {
				st.Vars[callee.Name+"."+l.Name] = rDefault
			}
			delete(st.Pristine, callee.Name+"."+l.Name)
		}
		st.PC = callee.Name + "." + callee.Labels[0].Name
	default:
		return nil, fmt.Errorf("unknown terminator %q", t.K)
	}
	step.Next = st
	return step, nil
}

// doReturn pops the head frame and restores what it saved. localsOnly: the pcal peculiarity (see file comment).
func (in *Interp) doReturn(st *State, li *labelInfo, localsOnly bool) error {
	if len(st.Stack) == 0 {
		return fmt.Errorf("return with an empty stack")
	}
	fr := st.Stack[0]
	st.Stack = st.Stack[1:]
	for name, v := range fr.Saved {
		if localsOnly && li.proc != nil {
			short := strings.TrimPrefix(name, li.proc.Name+".")
			isParam := false
			for _, prm := range li.proc.Params {
				if prm.Name == short {
					isParam = true
				}
			}
			if isParam {
				continue
			}
		}
		st.Vars[name] = v
		if fr.Pristine[name] {
			st.Pristine[name] = true
		} else {
			delete(st.Pristine, name)
		}
	}
	st.PC = fr.PC
	return nil
}

func (in *Interp) Apply(s *Step) { in.St = s.Next; in.steps++ }

// RunAll executes the program to completion (or maxSteps) and returns every step.
func (in *Interp) RunAll(maxSteps int) ([]*Step, error) {
	var out []*Step
	for {
		s, err := in.Peek()
		if err != nil {
			return out, err
		}
		if s.Done {
			return out, nil
		}
		out = append(out, s)
		in.Apply(s)
		if len(out) > maxSteps {
			return out, fmt.Errorf("more than %d steps", maxSteps)
		}
	}
}

// programStats summarises a reference run: what makes a case non-trivial.
type programStats struct {
	Steps     int  `json:"steps"`
	MaxDepth  int  `json:"max_depth"`
	Calls     int  `json:"calls"`
	TailCalls int  `json:"tail_calls"`
	Returns   int  `json:"returns"`
	Recursion bool `json:"recursion"` // some procedure was active twice at the same time
	RefWrites int  `json:"ref_writes"`
	MutualRec bool `json:"mutual_recursion"`
}

func statsOf(p *Program, steps []*Step) programStats {
	var s programStats
	s.Steps = len(steps)
	for _, st := range steps {
		switch st.Term {
		case "call":
			s.Calls++
		case "tail":
			s.TailCalls++
		case "ret":
			s.Returns++
		}
		if d := len(st.Next.Stack); d > s.MaxDepth {
			s.MaxDepth = d
		}
		seen := map[string]int{}
		for i, fr := range st.Next.Stack {
			seen[fr.Proc]++
			if seen[fr.Proc] > 1 {
				s.Recursion = true
				// mutual: the two activations are separated by another procedure's frame
				for j := 0; j < i; j++ {
					if st.Next.Stack[j].Proc != fr.Proc {
						s.MutualRec = true
					}
				}
			}
		}
		li := strings.SplitN(st.Label, ".", 2)[0]
		for _, w := range st.Writes {
			if !strings.HasPrefix(w.Cell, li+".") {
				s.RefWrites++
			}
		}
	}
	return s
}

func sortedKeys[T any](m map[string]T) []string {
	ks := make([]string, 0, len(m))
	for k := range m {
		ks = append(ks, k)
	}
	sort.Strings(ks)
	return ks
}

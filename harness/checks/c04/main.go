// C04 — procedure calls follow PlusCal stack semantics (incl. recursion, tail calls).
//
// Random call-graph programs (prog.go) are compiled to MPCalArchetype/JumpTable/ProcTable values exactly the
// way the code generator does it (gobuild.go) and run under the real MPCalContext.Run. A reference interpreter
// of PlusCal call/return semantics (refinterp.go) runs in lock-step; after every committed label, and before
// every attempt (so also after every aborted attempt), .pc, the stack depth, every saved frame, every procedure
// variable, every archetype variable and every value the section read are compared. The reference interpreter
// itself is calibrated on a seeded sample against the real PlusCal translator + TLC (pluscal.go). The shipped
// ProcedureSpaghetti tables are driven with the six process shapes of their spec (spaghetti.go).
package main

import (
	"encoding/json"
	"fmt"
	"os"
	"strconv"
	"sync"
	"time"

	"verifh/common"
)

type caseWitness struct {
	Program   *Program      `json:"program"`
	Shrunk    bool          `json:"shrunk"`
	Violation *violation    `json:"violation"`
	Stats     *programStats `json:"reference_stats,omitempty"`
	Shipped   string        `json:"shipped_shape,omitempty"`
}

func describe(v *violation) string {
	s := fmt.Sprintf("%s at label %s (terminator %s", v.Kind, v.Label, v.Term)
	if v.Callee != "" {
		s += " " + v.Callee
		if v.Recursed {
			s += ", already active"
		}
	}
	s += ")"
	if len(v.Diffs) > 0 {
		d := v.Diffs[0]
		s += fmt.Sprintf(": %s is %v, PlusCal semantics give %v", d.Where, d.Got, d.Want)
		if len(v.Diffs) > 1 {
			s += fmt.Sprintf(" (+%d more differences)", len(v.Diffs)-1)
		}
	}
	if v.Detail != "" {
		s += ": " + v.Detail
	}
	return s
}

func main() {
	r := common.Start("C04", "exploration")
	installHooks()

	if f := os.Getenv("C04_DEV_CALIB"); f != "" { // development aid: calibrate one stored program, keep the files
		buf, _ := os.ReadFile(f)
		var p Program
		if err := json.Unmarshal(buf, &p); err != nil {
			panic(err)
		}
		dir := common.Scratch("c04-dev")
		fmt.Printf("%+v\nfiles in %s\n", calibrateOne(&p, dir, false, true), dir)
		return
	}
	if n, _ := strconv.Atoi(os.Getenv("C04_DEV_PCAL")); n > 0 { // development aid: does pcal accept what validPlusCal accepts?
		devPcalOnly = true
		rng := r.Rand("dev-pcal")
		var ps []*Program
		for len(ps) < n {
			p, _, _ := drawValidProgram(rng, map[string]int{})
			ps = append(ps, p)
		}
		bad := 0
		var mu sync.Mutex
		common.Parallel(n, 8, func(i int) {
			dir := common.Scratch("c04-dev")
			defer os.RemoveAll(dir)
			if out := calibrateOne(ps[i], dir, false, true); !out.Accepted {
				mu.Lock()
				bad++
				fmt.Printf("REJECTED %s\n%s\n", out.Problem, ps[i].JSON())
				mu.Unlock()
			}
		})
		fmt.Printf("pcal accepted %d of %d programs\n", n-bad, n)
		return
	}
	if os.Getenv("C04_DEV_QUIRK") != "" { // development aid: is the pcal tail-call peculiarity modelled exactly?
		rng := r.Rand("dev-quirk")
		found := 0
		for found < 3 {
			p, _, _ := drawValidProgram(rng, map[string]int{})
			_, sp, _ := vet(p)
			a, _ := NewInterp(sp, true).RunAll(maxRefSteps)
			b, _ := NewInterp(sp, false).RunAll(maxRefSteps)
			differ := false
			for i := range a {
				if fmt.Sprint(a[i].Next.Vars) != fmt.Sprint(b[i].Next.Vars) {
					differ = true
				}
			}
			if !differ {
				continue
			}
			found++
			dir := common.Scratch("c04-dev")
			on := calibrateOne(p, dir, false, true)
			off := calibrateOne(p, dir, false, false)
			fmt.Printf("program with a tail call into another procedure: pcal-mode accepted=%v (%s); statement-mode accepted=%v (%s)\n", on.Accepted, on.Problem, off.Accepted, off.Problem)
			os.RemoveAll(dir)
		}
		return
	}
	if r.Replay != "" {
		replay(r)
		return
	}

	nPrograms := r.Pick(300, 20000)
	nCalib := r.Pick(3, 40)
	if os.Getenv("C04_NOCALIB") != "" { // development aid
		nCalib = 0
	}

	var samples common.SampleKeeper
	samples.N = 4
	var distinct common.Distinct
	evals := 0
	tot := map[string]int{}
	abortsAfter := map[string]int{}
	termsSeen := map[string]int{}
	rejected := map[string]int{}
	maxDepth := 0

	// --- calibration of the reference interpreter against pcal + TLC, in the background
	var calibWG sync.WaitGroup
	calib := newCalibration(r, nCalib)
	calibWG.Add(1)
	go func() { defer calibWG.Done(); calib.run() }()

	shrunk := map[string]bool{}
	var mu sync.Mutex // guards every counter below and `shrunk`
	progStart := time.Now()
	const batchSize = 50
	nBatches := (nPrograms + batchSize - 1) / batchSize
	common.Parallel(nBatches, r.Pick(4, 12), func(b int) {
		rng := r.Rand(fmt.Sprintf("c04-programs-%d", b))
		rej := map[string]int{}
		offered := false
		for k := 0; k < batchSize && b*batchSize+k < nPrograms; k++ {
			i := b*batchSize + k
			p, st, why := drawValidProgram(rng, rej)
			if p == nil {
				r.Inconclusive("generator could not produce a valid program: " + why)
				continue
			}
			if b < nCalib && !offered && st.Steps >= 8 && st.MaxDepth >= 2 {
				// deterministic sample for the TLC calibration: the first program of some size in each of the first batches
				offered = true
				calib.offer(i, p)
			}
			res := runProgram(p, func(v *violation) bool {
				return handleViolation(r, p, v, st, &mu, shrunk)
			})
			mu.Lock()
			evals++
			tot["steps"] += res.Steps
			tot["attempts"] += res.Attempts
			tot["aborts"] += res.Aborts
			tot["resyncs"] += res.Resyncs
			for k, n := range res.AfterTerm {
				abortsAfter[k] += n
			}
			if res.Finished {
				tot["finished"]++
			}
			if res.Truncated != "" {
				tot["truncated_after_known_finding"]++
			}
			if res.Viol != nil {
				tot["ended_by_violation"]++
			}
			if st.MaxDepth > maxDepth {
				maxDepth = st.MaxDepth
			}
			termsSeen["call"] += st.Calls
			termsSeen["tail"] += st.TailCalls
			termsSeen["ret"] += st.Returns
			if st.Recursion {
				tot["programs_with_recursion"]++
			}
			if st.MutualRec {
				tot["programs_with_mutual_recursion"]++
			}
			if st.RefWrites > 0 {
				tot["programs_with_ref_writes"]++
			}
			if st.TailCalls > 0 {
				tot["programs_with_tail_calls"]++
			}
			mu.Unlock()
			if st.MaxDepth >= 2 || st.Recursion || st.TailCalls > 0 {
				distinct.Add(p.JSON())
			}
			if i < 4 {
				samples.Add(map[string]any{"program": p, "reference_stats": st, "run": res})
			}
		}
		mu.Lock()
		for k, n := range rej {
			rejected[k] += n
		}
		mu.Unlock()
	})
	progWall := time.Since(progStart).Seconds()
	calib.close()
	calibWG.Wait()

	// --- shipped ProcedureSpaghetti tables
	shipped := runSpaghetti(r)
	evals += shipped["shapes_run"].(int)

	extra := map[string]any{
		"totals":                      tot,
		"programs_wall_s":             progWall,
		"aborted_attempts_after_term": abortsAfter,
		"reference_terminators":       termsSeen,
		"max_call_depth":              maxDepth,
		"generator_rejections":        rejected,
		"calibration":                 calib.summary(),
		"shipped_procedure_spaghetti": shipped,
	}
	evals += calib.accepted
	r.Finish(common.Coverage{
		Evaluations:        evals,
		DistinctNontrivial: distinct.Len(),
		Rule: "one evaluation = one generated program run to completion on a real MPCalContext in lock-step with the reference interpreter " +
			"(plus TLC-calibrated programs and shipped ProcedureSpaghetti shapes); non-trivial = the reference run reaches call depth >= 2, or has a procedure active twice, or executes a tail call; distinct by program text",
		Samples: samples.S,
		Floor:   r.Pick(100, 5000),
		Extra:   extra,
	}, []string{
		"procedure variables that no call has bound yet have no observable value: where PlusCal's initial state holds an initialiser value or defaultInitValue, the runtime may hold defaultInitValue or no resource at all (also inside saved frames)",
		"programs are restricted to what the PlusCal translator accepts after MPCal's expansion of ref parameters (no variable assigned twice in one step, finite expansion), refs to a procedure's own variables are not passed in tail calls",
		"tail call = return immediately followed by call with the popped return label (the statement's reading); the real pcal translator does not restore the caller's PARAMETERS on a tail call into a different procedure, which the calibration models with an explicit switch",
		"aborts are injected as a failing section body (before Call/Return run) and as a failing PreCommit of an archetype resource (after Call/Return/TailCall ran)",
	})
}

// handleViolation reports v (after shrinking the program when it is fresh) and says whether the monitor may
// resynchronise (only for open known findings).
var shrunkTries = map[string]int{}

func handleViolation(r *common.Run, p *Program, v *violation, st programStats, mu *sync.Mutex, shrunk map[string]bool) bool {
	if v.Kind == "harness" {
		r.Inconclusive("harness: " + v.Detail + " in " + p.JSON())
		return false
	}
	key := v.key()
	w := caseWitness{Program: p, Violation: v, Stats: &st}
	mu.Lock()
	try := shrunkTries[key] < 4 && !shrunk[key]
	shrunkTries[key]++
	mu.Unlock()
	if try { // the first witness of every key is shrunk
		if sp, sv := shrink(p, key); sp != nil {
			w = caseWitness{Program: sp, Shrunk: true, Violation: sv}
			mu.Lock()
			shrunk[key] = true
			mu.Unlock()
		}
	}
	fresh := r.Report(key, describe(w.Violation), w)
	if !fresh {
		knownKeys.Store(key, true)
	}
	return !fresh
}

func replay(r *common.Run) {
	buf, err := os.ReadFile(r.Replay)
	if err != nil {
		fmt.Println("cannot read replay file:", err)
		os.Exit(3)
	}
	var f struct {
		Key     string `json:"key"`
		Witness struct {
			Program *Program `json:"program"`
			Shipped string   `json:"shipped_shape"`
		} `json:"witness"`
	}
	if err := json.Unmarshal(buf, &f); err != nil {
		fmt.Println("cannot parse replay file:", err)
		os.Exit(3)
	}
	n := 0
	if f.Witness.Shipped != "" {
		n = replaySpaghetti(r, f.Witness.Shipped)
	} else if f.Witness.Program != nil {
		p := f.Witness.Program
		res := runProgram(p, func(v *violation) bool {
			n++
			return !r.Report(v.key(), describe(v), caseWitness{Program: p, Violation: v})
		})
		fmt.Printf("replayed: steps=%d attempts=%d aborts=%d finished=%v\n", res.Steps, res.Attempts, res.Aborts, res.Finished)
	}
	r.Finish(common.Coverage{Evaluations: 1, DistinctNontrivial: n, Rule: "replay of one stored case"}, nil)
}

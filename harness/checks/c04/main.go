// C04 — procedure calls follow PlusCal stack semantics (incl. recursion, tail calls).
//
// Random call-graph programs (prog.go) are compiled to MPCalArchetype/JumpTable/ProcTable values exactly the
// way the code generator does it (gobuild.go) and run under the real MPCalContext.Run. A reference interpreter
// of PlusCal call/return semantics (refinterp.go) runs in lock-step; after every committed label, and before
// every attempt (so also after every aborted attempt), .pc, the stack depth, every saved frame, every procedure
// variable, every archetype variable and every value the section read are compared. The reference interpreter
// itself is calibrated on a seeded sample against the real PlusCal translator + TLC (pluscal.go). The shipped
// ProcedureSpaghetti tables are driven with the six process shapes of their spec (spaghetti.go).
package main

import (
	"encoding/json"
	"fmt"
	"os"
	"sync"

	"verifh/common"
)

type caseWitness struct {
	Program   *Program      `json:"program"`
	Shrunk    bool          `json:"shrunk"`
	Violation *violation    `json:"violation"`
	Stats     *programStats `json:"reference_stats,omitempty"`
	Shipped   string        `json:"shipped_shape,omitempty"`
}

func describe(v *violation) string {
	s := fmt.Sprintf("%s at label %s (terminator %s", v.Kind, v.Label, v.Term)
	if v.Callee != "" {
		s += " " + v.Callee
		if v.Recursed {
			s += ", already active"
		}
	}
	s += ")"
	if len(v.Diffs) > 0 {
		d := v.Diffs[0]
		s += fmt.Sprintf(": %s is %v, PlusCal semantics give %v", d.Where, d.Got, d.Want)
		if len(v.Diffs) > 1 {
			s += fmt.Sprintf(" (+%d more differences)", len(v.Diffs)-1)
		}
	}
	if v.Detail != "" {
		s += ": " + v.Detail
	}
	return s
}

func main() {
	r := common.Start("C04", "exploration")
	installHooks()

	if r.Replay != "" {
		replay(r)
		return
	}

	rng := r.Rand("c04-programs")
	nPrograms := r.Pick(300, 20000)
	nCalib := r.Pick(3, 60)

	var samples common.SampleKeeper
	samples.N = 4
	var distinct common.Distinct
	evals := 0
	tot := map[string]int{}
	abortsAfter := map[string]int{}
	termsSeen := map[string]int{}
	rejected := map[string]int{}
	maxDepth := 0

	// --- calibration of the reference interpreter against pcal + TLC, in the background
	var calibWG sync.WaitGroup
	calib := newCalibration(r, nCalib)
	calibWG.Add(1)
	go func() { defer calibWG.Done(); calib.run() }()

	freshSeen := map[string]int{}
	for i := 0; i < nPrograms; i++ {
		p, st, why := drawValidProgram(rng, rejected)
		if p == nil {
			r.Inconclusive("generator could not produce a valid program: " + why)
			continue
		}
		if i < nCalib {
			calib.offer(i, p)
		}
		evals++
		var first *violation
		res := runProgram(p, func(v *violation) bool {
			return handleViolation(r, p, v, st, freshSeen, &first)
		})
		tot["steps"] += res.Steps
		tot["attempts"] += res.Attempts
		tot["aborts"] += res.Aborts
		tot["resyncs"] += res.Resyncs
		for k, n := range res.AfterTerm {
			abortsAfter[k] += n
		}
		if res.Finished {
			tot["finished"]++
		}
		if res.Truncated != "" {
			tot["truncated_after_known_finding"]++
		}
		if res.Viol != nil {
			tot["ended_by_violation"]++
		}
		if st.MaxDepth > maxDepth {
			maxDepth = st.MaxDepth
		}
		termsSeen["call"] += st.Calls
		termsSeen["tail"] += st.TailCalls
		termsSeen["ret"] += st.Returns
		if st.Recursion {
			tot["programs_with_recursion"]++
		}
		if st.MutualRec {
			tot["programs_with_mutual_recursion"]++
		}
		if st.RefWrites > 0 {
			tot["programs_with_ref_writes"]++
		}
		if st.MaxDepth >= 2 || st.Recursion || st.TailCalls > 0 {
			distinct.Add(p.JSON())
		}
		if i < 4 {
			samples.Add(map[string]any{"program": p, "reference_stats": st, "run": res})
		}
	}
	calib.close()
	calibWG.Wait()

	// --- shipped ProcedureSpaghetti tables
	shipped := runSpaghetti(r)
	evals += shipped["shapes_run"].(int)

	extra := map[string]any{
		"totals":                      tot,
		"aborted_attempts_after_term": abortsAfter,
		"reference_terminators":       termsSeen,
		"max_call_depth":              maxDepth,
		"generator_rejections":        rejected,
		"calibration":                 calib.summary(),
		"shipped_procedure_spaghetti": shipped,
	}
	evals += calib.accepted
	r.Finish(common.Coverage{
		Evaluations:        evals,
		DistinctNontrivial: distinct.Len(),
		Rule: "one evaluation = one generated program run to completion on a real MPCalContext in lock-step with the reference interpreter " +
			"(plus TLC-calibrated programs and shipped ProcedureSpaghetti shapes); non-trivial = the reference run reaches call depth >= 2, or has a procedure active twice, or executes a tail call; distinct by program text",
		Samples: samples.S,
		Floor:   r.Pick(100, 5000),
		Extra:   extra,
	}, []string{
		"procedure variables that no call has bound yet have no observable value: where PlusCal's initial state holds an initialiser value or defaultInitValue, the runtime may hold defaultInitValue or no resource at all (also inside saved frames)",
		"programs are restricted to what the PlusCal translator accepts after MPCal's expansion of ref parameters (no variable assigned twice in one step, finite expansion), refs to a procedure's own variables are not passed in tail calls",
		"tail call = return immediately followed by call with the popped return label (the statement's reading); the real pcal translator does not restore the caller's PARAMETERS on a tail call into a different procedure, which the calibration models with an explicit switch",
		"aborts are injected as a failing section body (before Call/Return run) and as a failing PreCommit of an archetype resource (after Call/Return/TailCall ran)",
	})
}

// handleViolation reports v (after shrinking the program when it is fresh) and says whether the monitor may
// resynchronise (only for open known findings).
func handleViolation(r *common.Run, p *Program, v *violation, st programStats, freshSeen map[string]int, first **violation) bool {
	if v.Kind == "harness" {
		r.Inconclusive("harness: " + v.Detail + " in " + p.JSON())
		return false
	}
	key := v.key()
	w := caseWitness{Program: p, Violation: v, Stats: &st}
	if freshSeen[key] == 0 {
		if sp, sv := shrink(p, key); sp != nil {
			w = caseWitness{Program: sp, Shrunk: true, Violation: sv}
		}
	}
	fresh := r.Report(key, describe(w.Violation), w)
	if fresh {
		freshSeen[key]++
	}
	return !fresh
}

func replay(r *common.Run) {
	buf, err := os.ReadFile(r.Replay)
	if err != nil {
		fmt.Println("cannot read replay file:", err)
		os.Exit(3)
	}
	var f struct {
		Key     string      `json:"key"`
		Witness caseWitness `json:"witness"`
	}
	if err := json.Unmarshal(buf, &f); err != nil {
		fmt.Println("cannot parse replay file:", err)
		os.Exit(3)
	}
	n := 0
	if f.Witness.Shipped != "" {
		n = replaySpaghetti(r, f.Witness.Shipped)
	} else if f.Witness.Program != nil {
		p := f.Witness.Program
		res := runProgram(p, func(v *violation) bool {
			n++
			return !r.Report(v.key(), describe(v), caseWitness{Program: p, Violation: v})
		})
		fmt.Printf("replayed: steps=%d attempts=%d aborts=%d finished=%v\n", res.Steps, res.Attempts, res.Aborts, res.Finished)
	}
	r.Finish(common.Coverage{Evaluations: 1, DistinctNontrivial: n, Rule: "replay of one stored case"}, nil)
}

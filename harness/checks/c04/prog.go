package main

// Program IR: a single archetype plus 1-4 procedures, written the way an MPCal programmer would write
// them and compiled (gobuild.go) the way MPCalGoCodegenPass compiles them. The same IR is interpreted by the
// reference interpreter (refinterp.go) and printed as PlusCal (pluscal.go).

import (
	"encoding/json"
	"fmt"
	"math/rand"
	"strings"
)

// Expr: "c" constant C; "v" variable V; "v+c" variable V plus constant C; "v+w" variable V plus variable W.
type Expr struct {
	K string `json:"k"`
	V string `json:"v,omitempty"`
	W string `json:"w,omitempty"`
	C int32  `json:"c,omitempty"`
}

// Op: "set" T := E; "fault" (the attempt aborts here when the label's fault plan says "op" for this attempt).
type Op struct {
	K string `json:"k"`
	T string `json:"t,omitempty"`
	E *Expr  `json:"e,omitempty"`
}

// Arg of a call: by value (E) or by reference (ref V).
type Arg struct {
	Ref bool   `json:"ref,omitempty"`
	V   string `json:"v,omitempty"`
	E   *Expr  `json:"e,omitempty"`
}

// Term is the control transfer that ends a label:
// goto L | call P(A) ; goto L | tail: call P(A) ; return | ret | if CV > 0 then Then else Else | done (goto Done).
type Term struct {
	K    string `json:"k"`
	L    string `json:"l,omitempty"`
	P    string `json:"p,omitempty"`
	A    []Arg  `json:"a,omitempty"`
	CV   string `json:"cv,omitempty"`
	Then *Term  `json:"then,omitempty"`
	Else *Term  `json:"else,omitempty"`
}

type Label struct {
	Name string `json:"name"`
	Ops  []Op   `json:"ops,omitempty"`
	Term Term   `json:"term"`
	// Faults[i] says how the i-th attempt of every visit of this label fails: "op" = the fault op returns
	// ErrCriticalSectionAborted, "pc" = a dirty archetype resource fails its PreCommit (the abort then
	// comes AFTER Call/Return/TailCall ran). Attempts beyond len(Faults) are not disturbed.
	Faults []string `json:"faults,omitempty"`
}

type Param struct {
	Name string `json:"name"`
	Ref  bool   `json:"ref,omitempty"`
}

type Local struct {
	Name string `json:"name"`
	Init *int32 `json:"init,omitempty"` // nil: no initialiser (defaultInitValue)
}

type Proc struct {
	Name   string  `json:"name"`
	Params []Param `json:"params"`
	Locals []Local `json:"locals,omitempty"`
	Labels []Label `json:"labels"`
}

type ArchVar struct {
	Name string `json:"name"`
	Init int32  `json:"init"`
}

type Program struct {
	Arch      string    `json:"arch"`
	Locals    []ArchVar `json:"locals,omitempty"`
	RefParams []ArchVar `json:"ref_params,omitempty"`
	ValParams []ArchVar `json:"val_params,omitempty"`
	Labels    []Label   `json:"labels"`
	Procs     []Proc    `json:"procs"`
}

func (p *Program) JSON() string {
	b, _ := json.Marshal(p)
	return string(b)
}

func (p *Program) Clone() *Program {
	var q Program
	if err := json.Unmarshal([]byte(p.JSON()), &q); err != nil {
		panic(err)
	}
	return &q
}

func (p *Program) proc(name string) *Proc {
	for i := range p.Procs {
		if p.Procs[i].Name == name {
			return &p.Procs[i]
		}
	}
	return nil
}

func (pr *Proc) stateVars() []string {
	var out []string
	for _, x := range pr.Params {
		out = append(out, pr.Name+"."+x.Name)
	}
	for _, x := range pr.Locals {
		out = append(out, pr.Name+"."+x.Name)
	}
	return out
}

func (pr *Proc) isRef(name string) bool {
	for _, x := range pr.Params {
		if x.Name == name {
			return x.Ref
		}
	}
	return false
}

func (p *Program) archIsRef(name string) bool {
	for _, x := range p.RefParams {
		if x.Name == name {
			return true
		}
	}
	return false
}

// isAbs: names that already denote a storage cell ("A.x", "&A.r", "P0#1.c"); used by specialised programs.
func isAbs(name string) bool { return strings.ContainsAny(name, ".&") }

// ---------------------------------------------------------------------------------------------
// generator

type gen struct {
	rng   *rand.Rand
	uniq  int32
	prog  *Program
	avoid bool // avoid tail calls (used by a fraction of programs so that recursion is seen beyond the first tail call)
}

func (g *gen) nextConst() int32 {
	g.uniq++
	return 1000 + g.uniq*7
}

func i32(v int32) *int32 { return &v }

// genProgram draws one random call-graph program.
func genProgram(rng *rand.Rand) *Program {
	g := &gen{rng: rng}
	p := &Program{Arch: "A"}
	g.prog = p
	g.avoid = rng.Intn(3) == 0
	for i := 0; i < 1+rng.Intn(2); i++ {
		p.Locals = append(p.Locals, ArchVar{fmt.Sprintf("x%d", i), g.nextConst()})
	}
	for i := 0; i < rng.Intn(3); i++ {
		p.RefParams = append(p.RefParams, ArchVar{fmt.Sprintf("r%d", i), g.nextConst()})
	}
	if rng.Intn(2) == 0 {
		p.ValParams = append(p.ValParams, ArchVar{"v0", g.nextConst()})
	}
	nProcs := 1 + rng.Intn(4)
	for i := 0; i < nProcs; i++ {
		pr := Proc{Name: fmt.Sprintf("P%d", i)}
		pr.Params = append(pr.Params, Param{Name: "d"})
		for j := 0; j < rng.Intn(3); j++ {
			pr.Params = append(pr.Params, Param{Name: fmt.Sprintf("p%d", j+1), Ref: rng.Intn(5) < 2})
		}
		for j := 0; j < rng.Intn(3); j++ {
			l := Local{Name: fmt.Sprintf("c%d", j)}
			if rng.Intn(5) < 3 {
				l.Init = i32(g.nextConst())
			}
			pr.Locals = append(pr.Locals, l)
		}
		p.Procs = append(p.Procs, pr)
	}
	for i := range p.Procs {
		g.genProcLabels(&p.Procs[i])
	}
	// archetype body
	nl := 1 + rng.Intn(3)
	called := false
	for j := 0; j < nl; j++ {
		next := fmt.Sprintf("a%d", j+1)
		tk := "goto"
		if j == nl-1 {
			next = "Done"
			tk = "done"
		}
		lb := Label{Name: fmt.Sprintf("a%d", j)}
		lb.Ops = g.genOps(nil, false)
		if rng.Intn(3) > 0 || (j == nl-1 && !called) {
			called = true
			callee := &p.Procs[rng.Intn(len(p.Procs))]
			lb.Term = Term{K: "call", P: callee.Name, L: next, A: g.genArgs(nil, callee, false, true)}
		} else {
			lb.Term = Term{K: tk, L: next}
		}
		g.genFaults(&lb)
		p.Labels = append(p.Labels, lb)
	}
	return p
}

func (g *gen) genProcLabels(pr *Proc) {
	rng := g.rng
	nl := 1 + rng.Intn(4)
	calls := 0
	for j := 0; j < nl; j++ {
		lb := Label{Name: fmt.Sprintf("l%d", j)}
		next := fmt.Sprintf("l%d", j+1)
		last := j == nl-1
		wantCall := calls < 2 && rng.Intn(5) < 3
		var callee *Proc
		if wantCall {
			calls++
			if rng.Intn(3) == 0 {
				callee = pr // self recursion
			} else {
				callee = &g.prog.Procs[rng.Intn(len(g.prog.Procs))]
			}
		}
		switch {
		case last && wantCall && !g.avoid && rng.Intn(2) == 0: // tail call
			lb.Ops = g.genOps(pr, true)
			lb.Term = Term{K: "if", CV: "d",
				Then: &Term{K: "tail", P: callee.Name, A: g.genArgs(pr, callee, true, false)},
				Else: &Term{K: "ret"}}
		case last && wantCall: // call, then return from a label of its own? no: call; goto is impossible on the last label, so guard + tail-free form
			// non-tail call on the last label needs a following label: add one that only returns
			lb.Ops = g.genOps(pr, false)
			lb.Term = Term{K: "if", CV: "d",
				Then: &Term{K: "call", P: callee.Name, L: next, A: g.genArgs(pr, callee, false, false)},
				Else: &Term{K: "goto", L: next}}
			g.genFaults(&lb)
			pr.Labels = append(pr.Labels, lb)
			lb = Label{Name: next, Ops: g.genOps(pr, true), Term: Term{K: "ret"}}
		case last:
			lb.Ops = g.genOps(pr, true)
			lb.Term = Term{K: "ret"}
		case wantCall:
			lb.Ops = g.genOps(pr, false)
			els := &Term{K: "goto", L: next}
			if rng.Intn(6) == 0 {
				els = &Term{K: "ret"}
				lb.Ops = g.genOps(pr, true)
			}
			lb.Term = Term{K: "if", CV: "d",
				Then: &Term{K: "call", P: callee.Name, L: next, A: g.genArgs(pr, callee, false, false)},
				Else: els}
		default:
			lb.Ops = g.genOps(pr, false)
			lb.Term = Term{K: "goto", L: next}
		}
		g.genFaults(&lb)
		pr.Labels = append(pr.Labels, lb)
	}
}

func (g *gen) genFaults(lb *Label) {
	rng := g.rng
	if rng.Intn(10) >= 3 {
		return
	}
	n := 1 + rng.Intn(2)
	hasOp := false
	for i := 0; i < n; i++ {
		if rng.Intn(2) == 0 {
			lb.Faults = append(lb.Faults, "op")
			hasOp = true
		} else {
			lb.Faults = append(lb.Faults, "pc")
		}
	}
	if hasOp {
		pos := rng.Intn(len(lb.Ops) + 1)
		ops := append([]Op{}, lb.Ops[:pos]...)
		ops = append(ops, Op{K: "fault"})
		lb.Ops = append(ops, lb.Ops[pos:]...)
	}
}

// readable int variables of a scope (pr == nil: archetype)
func (g *gen) readable(pr *Proc) []string {
	var out []string
	if pr == nil {
		for _, x := range g.prog.Locals {
			out = append(out, x.Name)
		}
		for _, x := range g.prog.RefParams {
			out = append(out, x.Name)
		}
		for _, x := range g.prog.ValParams {
			out = append(out, x.Name)
		}
		return out
	}
	for _, x := range pr.Params {
		out = append(out, x.Name)
	}
	for _, x := range pr.Locals {
		if x.Init != nil {
			out = append(out, x.Name)
		}
	}
	return out
}

func (g *gen) genExpr(pr *Proc) *Expr {
	rd := g.readable(pr)
	switch k := g.rng.Intn(4); {
	case k == 0 || len(rd) == 0:
		return &Expr{K: "c", C: g.nextConst()}
	case k == 1:
		return &Expr{K: "v", V: rd[g.rng.Intn(len(rd))]}
	default:
		return &Expr{K: "v+c", V: rd[g.rng.Intn(len(rd))], C: g.nextConst()}
	}
}

// genOps: 0-2 assignments. In procedures a label either assigns distinct own value variables or makes exactly
// one assignment through a ref parameter (two refs may alias; PlusCal forbids assigning a variable twice in a step).
// noOwn: the label ends in return / tail call, which assign the procedure's own variables themselves.
func (g *gen) genOps(pr *Proc, noOwn bool) []Op {
	rng := g.rng
	var ops []Op
	if pr == nil {
		var targets []string
		for _, x := range g.prog.Locals {
			targets = append(targets, x.Name)
		}
		for _, x := range g.prog.RefParams {
			targets = append(targets, x.Name)
		}
		for _, x := range g.prog.ValParams {
			targets = append(targets, x.Name)
		}
		rng.Shuffle(len(targets), func(i, j int) { targets[i], targets[j] = targets[j], targets[i] })
		n := rng.Intn(3)
		for i := 0; i < n && i < len(targets); i++ {
			ops = append(ops, Op{K: "set", T: targets[i], E: g.genExpr(nil)})
		}
		return ops
	}
	var own, refs []string
	for _, x := range pr.Params {
		if x.Ref {
			refs = append(refs, x.Name)
		} else if x.Name != "d" {
			own = append(own, x.Name)
		}
	}
	for _, x := range pr.Locals {
		own = append(own, x.Name)
	}
	if len(refs) > 0 && (rng.Intn(2) == 0 || noOwn) {
		if rng.Intn(4) > 0 {
			ops = append(ops, Op{K: "set", T: refs[rng.Intn(len(refs))], E: g.genExpr(pr)})
		}
		return ops
	}
	if noOwn {
		return nil
	}
	rng.Shuffle(len(own), func(i, j int) { own[i], own[j] = own[j], own[i] })
	n := rng.Intn(3)
	for i := 0; i < n && i < len(own); i++ {
		ops = append(ops, Op{K: "set", T: own[i], E: g.genExpr(pr)})
	}
	return ops
}

// genArgs builds the argument list for a call from scope `from` (nil: archetype) to callee.
func (g *gen) genArgs(from *Proc, callee *Proc, tail bool, fromArch bool) []Arg {
	rng := g.rng
	var args []Arg
	for i, prm := range callee.Params {
		switch {
		case i == 0 && from == nil:
			args = append(args, Arg{E: &Expr{K: "c", C: int32(1 + rng.Intn(5))}})
		case i == 0:
			args = append(args, Arg{E: &Expr{K: "v+c", V: "d", C: -1}})
		case prm.Ref:
			var cands []string
			if from == nil {
				for _, x := range g.prog.Locals {
					cands = append(cands, x.Name)
				}
				for _, x := range g.prog.ValParams {
					cands = append(cands, x.Name)
				}
				for _, x := range g.prog.RefParams { // twice: prefer real resources
					cands = append(cands, x.Name, x.Name)
				}
			} else {
				for _, x := range from.Params {
					if x.Ref { // pass the reference on (ref chain)
						cands = append(cands, x.Name, x.Name, x.Name)
					} else if x.Name != "d" && !tail {
						cands = append(cands, x.Name)
					}
				}
				if !tail {
					for _, x := range from.Locals {
						if x.Init != nil {
							cands = append(cands, x.Name)
						}
					}
				}
			}
			if len(cands) == 0 {
				return nil // caller must give up this call site
			}
			args = append(args, Arg{Ref: true, V: cands[rng.Intn(len(cands))]})
		default:
			e := g.genExpr(from)
			if e.K == "v" { // argument values unique per activation
				e = &Expr{K: "v+c", V: e.V, C: g.nextConst()}
			}
			args = append(args, Arg{E: e})
		}
	}
	return args
}

// fixMissingArgs replaces call sites for which no ref argument could be found by plain control flow.
func fixMissingArgs(p *Program) {
	fix := func(t *Term, scopeIsArch bool) {
		var rec func(t *Term)
		rec = func(t *Term) {
			switch t.K {
			case "if":
				rec(t.Then)
				rec(t.Else)
			case "call":
				if callee := p.proc(t.P); callee != nil && len(t.A) != len(callee.Params) {
					if t.L == "Done" {
						*t = Term{K: "done", L: "Done"}
					} else {
						*t = Term{K: "goto", L: t.L}
					}
				}
			case "tail":
				if callee := p.proc(t.P); callee != nil && len(t.A) != len(callee.Params) {
					*t = Term{K: "ret"}
				}
			}
		}
		rec(t)
	}
	for i := range p.Labels {
		fix(&p.Labels[i].Term, true)
	}
	for i := range p.Procs {
		for j := range p.Procs[i].Labels {
			fix(&p.Procs[i].Labels[j].Term, false)
		}
	}
}

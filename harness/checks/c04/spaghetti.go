package main

// The shipped, generated ProcedureSpaghetti tables driven with the six process shapes of the spec
// (the repository's test instantiates Arch1 once). The procedures' sections are the SHIPPED bodies; the
// processes Pross4 and Pross5 are plain PlusCal processes in the spec (no generated Go), so their two
// labels are hand-built archetypes over the shipped jump table and procedure table.

import (
	"fmt"

	"verifh/common"

	"github.com/DistCompiler/pgo/distsys"
	"github.com/DistCompiler/pgo/distsys/tla"
	ps "github.com/DistCompiler/pgo/test/files/general/ProcedureSpaghetti.tla.gotests"
)

func spaghettiProcs() []Proc {
	return []Proc{
		{Name: "Proc1", Params: []Param{{Name: "a", Ref: true}, {Name: "b"}}, Locals: []Local{{Name: "c"}},
			Labels: []Label{
				{Name: "Proc1lbl1", Term: Term{K: "call", P: "Proc2", L: "Proc1lbl2", A: []Arg{{Ref: true, V: "a"}}}},
				{Name: "Proc1lbl2", Ops: []Op{{K: "set", T: "a", E: &Expr{K: "v+w", V: "a", W: "b"}}}, Term: Term{K: "ret"}},
			}},
		{Name: "Proc2", Params: []Param{{Name: "a_", Ref: true}},
			Labels: []Label{
				{Name: "Proc2lbl1", Ops: []Op{{K: "set", T: "a_", E: &Expr{K: "v+c", V: "a_", C: 1}}}, Term: Term{K: "ret"}},
			}},
		{Name: "RecursiveProcRef", Params: []Param{{Name: "X", Ref: true}},
			Labels: []Label{
				{Name: "RecursiveProclbl1", Term: Term{K: "tail", P: "RecursiveProcRef", A: []Arg{{Ref: true, V: "X"}}}},
			}},
	}
}

type shape struct {
	Name   string
	Prog   *Program
	Mapped bool // the ref parameter is mapped via M (read yields +1, write yields -1)
	Loop   bool // never terminates (RecursiveProcRef): stop after a counted number of commits
	Own    bool // archetype labels are hand-built (processes without generated Go)
}

func spaghettiShapes() []shape {
	arch1 := func(f int32) *Program {
		return &Program{Arch: "Arch1", RefParams: []ArchVar{{"e", 13}}, ValParams: []ArchVar{{"f", f}},
			Labels: []Label{{Name: "Arch1lbl", Term: Term{K: "call", P: "Proc1", L: "Done",
				A: []Arg{{Ref: true, V: "e"}, {E: &Expr{K: "v", V: "f"}}}}}},
			Procs: spaghettiProcs()}
	}
	pross4 := &Program{Arch: "Pross4", Locals: []ArchVar{{"c", 5}}, RefParams: []ArchVar{{"V1", 13}},
		Labels: []Label{
			{Name: "Prosslbl1", Term: Term{K: "call", P: "Proc1", L: "Prosslbl2", A: []Arg{{Ref: true, V: "c"}, {E: &Expr{K: "c", C: 10}}}}},
			{Name: "Prosslbl2", Term: Term{K: "call", P: "Proc1", L: "Done", A: []Arg{{Ref: true, V: "V1"}, {E: &Expr{K: "c", C: 20}}}}},
		}, Procs: spaghettiProcs()}
	pross5 := &Program{Arch: "Pross5", RefParams: []ArchVar{{"V1", 13}},
		Labels: []Label{
			{Name: "Pross5lbl1", Term: Term{K: "call", P: "RecursiveProcRef", L: "Done", A: []Arg{{Ref: true, V: "V1"}}}},
		}, Procs: spaghettiProcs()}
	return []shape{
		{Name: "Pross1", Prog: arch1(30), Mapped: true},
		{Name: "Pross2", Prog: arch1(40)},
		{Name: "Pross3", Prog: arch1(50)},
		{Name: "Pross3Bis", Prog: arch1(60)},
		{Name: "Pross4", Prog: pross4, Own: true},
		{Name: "Pross5", Prog: pross5, Own: true, Loop: true},
	}
}

func buildShape(sh shape, faults bool) *monitor {
	p := sh.Prog.Clone()
	if faults { // an abort before and one after the terminator on every label
		for i := range p.Labels {
			p.Labels[i].Faults = []string{"pc"}
		}
		for i := range p.Procs {
			for j := range p.Procs[i].Labels {
				p.Procs[i].Labels[j].Faults = []string{"pc"}
			}
		}
	}
	m := &monitor{prog: p, ref: NewInterp(p, false), maxAttempts: 500, lastEvent: "start", skipReads: true}
	m.inner = map[string]func(distsys.ArchetypeInterface) error{}
	m.probes = map[string]*probe{}
	m.abortsAfterTerm = map[string]int{}
	if sh.Loop {
		m.stopAfterSteps = 12
	}
	shipped := ps.Arch1.JumpTable
	var sections []distsys.MPCalCriticalSection
	for name, cs := range shipped {
		if _, isLabel := m.ref.labels[name]; isLabel {
			body := cs.Body
			m.inner[name] = func(iface distsys.ArchetypeInterface) error {
				// the shipped body runs its terminator last; note which one for the abort bookkeeping
				m.ranTerm = m.expected.Term
				return body(iface)
			}
			sections = append(sections, distsys.MPCalCriticalSection{Name: name, Body: m.body(name)})
		} else {
			sections = append(sections, cs) // Error labels, labels of other archetypes, Arch1.Done
		}
	}
	if sh.Own {
		for j := range p.Labels {
			name := p.Arch + "." + p.Labels[j].Name
			m.inner[name] = m.compileLabel(p.Arch, nil, &p.Labels[j])
			sections = append(sections, distsys.MPCalCriticalSection{Name: name, Body: m.body(name)})
		}
	}
	doneName := p.Arch + ".Done"
	sections = append(sections, distsys.MPCalCriticalSection{Name: doneName, Body: func(distsys.ArchetypeInterface) error {
		if m.viol == nil && m.truncated == "" {
			if m.ref.St.PC != doneName {
				m.raise(&violation{Kind: "wrong-label", Label: doneName, Detail: "reached Done, reference is at " + m.ref.St.PC})
			} else if ds := m.compare(m.ref.St); len(ds) > 0 {
				m.raise(&violation{Kind: "state-after-commit", Label: doneName, Term: "start", Diffs: ds})
			} else {
				m.finished = true
			}
		}
		return distsys.ErrDone
	}})
	arch := distsys.MPCalArchetype{Name: p.Arch, Label: p.Arch + "." + p.Labels[0].Name,
		JumpTable: distsys.MakeMPCalJumpTable(sections...), ProcTable: ps.Arch1.ProcTable,
		PreAmble: func(iface distsys.ArchetypeInterface) {
			for _, x := range p.Locals {
				iface.EnsureArchetypeResourceLocal(p.Arch+"."+x.Name, tla.MakeNumber(x.Init))
			}
		}}
	if !sh.Own {
		arch.PreAmble = ps.Arch1.PreAmble
	}
	var cfg []distsys.MPCalContextConfigFn
	for _, x := range p.RefParams {
		arch.RequiredRefParams = append(arch.RequiredRefParams, p.Arch+"."+x.Name)
		pb := &probe{mon: m, value: tla.MakeNumber(x.Init), old: tla.MakeNumber(x.Init)}
		if sh.Mapped { // stored value such that the program sees x.Init
			pb.mapped = true
			pb.value, pb.old = tla.MakeNumber(x.Init-1), tla.MakeNumber(x.Init-1)
		}
		m.probes["&"+p.Arch+"."+x.Name] = pb
		cfg = append(cfg, distsys.EnsureArchetypeRefParam(x.Name, pb))
	}
	for _, x := range p.ValParams {
		arch.RequiredValParams = append(arch.RequiredValParams, p.Arch+"."+x.Name)
		cfg = append(cfg, distsys.EnsureArchetypeValueParam(x.Name, tla.MakeNumber(x.Init)))
	}
	m.ctx = distsys.NewMPCalContext(tla.MakeString("self"), arch, cfg...)
	return m
}

func runShape(r *common.Run, sh shape, faults bool) (runResult, int) {
	m := buildShape(sh, faults)
	n := 0
	m.onViolation = func(v *violation) bool {
		n++
		if v.Kind == "harness" {
			r.Inconclusive("harness (shipped " + sh.Name + "): " + v.Detail)
			return false
		}
		fresh := r.Report(v.key(), "shipped ProcedureSpaghetti, process shape "+sh.Name+": "+describe(v),
			caseWitness{Program: m.prog, Violation: v, Shipped: fmt.Sprintf("%s/faults=%v", sh.Name, faults)})
		if !fresh {
			m.nResync++
		}
		return !fresh
	}
	return m.run(), n
}

func runSpaghetti(r *common.Run) map[string]any {
	out := map[string]any{}
	run := 0
	for _, sh := range spaghettiShapes() {
		for _, faults := range []bool{false, true} {
			res, _ := runShape(r, sh, faults)
			run++
			out[fmt.Sprintf("%s/faults=%v", sh.Name, faults)] = map[string]any{
				"steps": res.Steps, "aborts": res.Aborts, "finished": res.Finished, "ended_by_violation": res.Viol != nil,
				"aborts_after_term": res.AfterTerm,
			}
		}
	}
	out["shapes_run"] = run
	return out
}

func replaySpaghetti(r *common.Run, which string) int {
	total := 0
	for _, sh := range spaghettiShapes() {
		for _, faults := range []bool{false, true} {
			if fmt.Sprintf("%s/faults=%v", sh.Name, faults) == which {
				_, n := runShape(r, sh, faults)
				total += n
			}
		}
	}
	return total
}

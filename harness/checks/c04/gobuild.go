package main

// Compiles a Program into MPCalArchetype / MPCalJumpTable / MPCalProcTable values the way
// MPCalGoCodegenPass does, runs it under the real MPCalContext.Run and compares, in lock-step with the
// reference interpreter, the whole procedure-related state after every commit and before every attempt
// (which covers "state after an aborted attempt equals the state before it").

import (
	"errors"
	"fmt"
	"sort"
	"strings"
	"sync"

	"github.com/DistCompiler/pgo/distsys"
	"github.com/DistCompiler/pgo/distsys/tla"
	"github.com/DistCompiler/pgo/distsys/trace"
)

// probe is the resource bound to every archetype ref parameter: a transactional cell whose PreCommit can be
// made to fail (the way a mailbox or a shared variable may refuse a commit).
type probe struct {
	distsys.ArchetypeResourceLeafMixin
	mon        *monitor
	value, old tla.Value
	mapped     bool // ProcedureSpaghetti's mapping macro M: a read yields stored+1, a write stores value-1
}

// logical is the value as the program sees it.
func (p *probe) logical() tla.Value {
	if p.mapped {
		return tla.ModulePlusSymbol(p.value, tla.MakeNumber(1))
	}
	return p.value
}

func (p *probe) Abort(distsys.ArchetypeInterface) chan struct{} { p.value = p.old; return nil }
func (p *probe) PreCommit(distsys.ArchetypeInterface) chan error {
	if p.mon.armPC {
		p.mon.pcFired = true
		ch := make(chan error, 1)
		ch <- distsys.ErrCriticalSectionAborted
		return ch
	}
	return nil
}
func (p *probe) Commit(distsys.ArchetypeInterface) chan struct{} { p.old = p.value; return nil }
func (p *probe) ReadValue(distsys.ArchetypeInterface) (tla.Value, error) {
	return p.logical(), nil
}
func (p *probe) WriteValue(_ distsys.ArchetypeInterface, v tla.Value) error {
	p.value = v.StripVClock()
	if p.mapped {
		p.value = tla.ModuleMinusSymbol(p.value, tla.MakeNumber(1))
	}
	return nil
}
func (p *probe) Close() error { return nil }

type diff struct {
	Where string `json:"where"` // .pc | stack-depth | frame[i]..pc | frame[i].<var> | var <name>
	Class string `json:"class"` // pc | stack-depth | frame-pc | frame-var | frame-extra | proc-var | arch-var | stack-malformed
	Got   RVal   `json:"got"`
	Want  RVal   `json:"want"`
}

type violation struct {
	Kind     string   `json:"kind"` // state-after-commit | state-after-abort | read | panic | run-error | wrong-label | step-cap | not-finished
	Label    string   `json:"label"`
	Term     string   `json:"term"`
	Callee   string   `json:"callee,omitempty"`
	Recursed bool     `json:"callee_already_active,omitempty"`
	Diffs    []diff   `json:"diffs,omitempty"`
	Detail   string   `json:"detail,omitempty"`
	StepNo   int      `json:"step"`
	Attempt  int      `json:"attempt"`
	Trail    []string `json:"trail,omitempty"` // last labels committed / aborted
}

// key: the narrow structural key of a violation.
func (v *violation) key() string {
	switch v.Kind {
	case "panic", "run-error":
		return fmt.Sprintf("C04:%s:%s:%s", v.Term, v.Kind, panicClass(v.Detail))
	case "state-after-commit", "state-after-abort":
		d := v.Diffs[0]
		pre := v.Term
		if v.Kind == "state-after-abort" {
			pre = "abort-after-" + v.Term
		}
		if v.Recursed {
			pre += ":active-callee"
		}
		return fmt.Sprintf("C04:%s:%s:got-%s-want-%s", pre, d.Class, d.Got.class(), d.Want.class())
	case "read":
		d := v.Diffs[0]
		return fmt.Sprintf("C04:read:%s:got-%s-want-%s", d.Class, d.Got.class(), d.Want.class())
	}
	return "C04:" + v.Kind + ":" + v.Term
}

func panicClass(msg string) string {
	switch {
	case strings.Contains(msg, "is not a function"):
		return "not-a-function"
	case strings.Contains(msg, "is not a string"):
		return "not-a-string"
	case strings.Contains(msg, "is not a number"):
		return "not-a-number"
	case strings.Contains(msg, "is not a tuple"):
		return "not-a-tuple"
	case strings.Contains(msg, "is nil"):
		return "nil-value"
	case strings.Contains(msg, "could not find resource"):
		return "no-such-resource"
	case strings.Contains(msg, "could not find critical section"):
		return "no-such-label"
	case strings.Contains(msg, "does not contain a program counter"):
		return "frame-without-pc"
	case strings.Contains(msg, "tuple must not be empty"):
		return "empty-stack"
	}
	f := strings.Fields(msg)
	if len(f) > 4 {
		f = f[:4]
	}
	return strings.Join(f, "-")
}

var errStopRun = errors.New("c04 monitor: stop")

type monitor struct {
	prog     *Program
	ref      *Interp
	ctx      *distsys.MPCalContext
	probes   map[string]*probe // "&A.r" -> resource
	inner    map[string]func(distsys.ArchetypeInterface) error
	expected *Step

	attempt      int // aborted attempts of the current visit
	lastEvent    string
	lastAbortRan string // terminator the last aborted attempt had already executed ("" none)
	nResync      int
	armPC        bool
	pcFired      bool
	ranTerm      string // terminator executed by the current attempt ("" if the attempt did not get that far)
	reads        []Access
	readDiffs    []diff

	steps, attempts, aborts int
	abortsAfterTerm         map[string]int // aborted attempts in which call/tail/ret had already run
	trail                   []string
	viol                    *violation
	onViolation             func(v *violation) (resync bool)
	truncated               string // run ended early because the (resynchronised) reference cannot continue
	finished                bool
	maxAttempts             int
	stopAfterSteps          int // shipped infinite loops: request Stop after this many commits
	stopOnce                sync.Once
	skipReads               bool // bodies that are not ours (shipped tables): op-level reads are not observed
}

func (m *monitor) addTrail(s string) {
	m.trail = append(m.trail, s)
	if len(m.trail) > 12 {
		m.trail = m.trail[len(m.trail)-12:]
	}
}

func toRVal(v tla.Value) (out RVal) {
	defer func() {
		if e := recover(); e != nil {
			out = RVal{K: 'o', S: fmt.Sprint(e)}
		}
	}()
	v = v.StripVClock()
	switch {
	case v.Equal(tla.Value{}):
		return rDefault
	case v.IsNumber():
		return rInt(v.AsNumber())
	case v.IsString():
		return rStr(v.AsString())
	}
	return RVal{K: 'o', S: v.String()}
}

func fromRVal(v RVal) tla.Value {
	switch v.K {
	case 'i':
		return tla.MakeNumber(v.N)
	case 's':
		return tla.MakeString(v.S)
	}
	return tla.Value{}
}

// observed state of the real context, in the reference's vocabulary
func (m *monitor) observeVar(name string) RVal {
	if pr, ok := m.probes[name]; ok {
		return toRVal(pr.logical())
	}
	v, ok := m.ctx.VerifLocalValue(name)
	if !ok {
		return RVal{K: 'm'}
	}
	return toRVal(v)
}

type obsFrame struct {
	pc   RVal
	vars map[string]RVal
}

func (m *monitor) observeStack() (frames []obsFrame, problem string) {
	defer func() {
		if e := recover(); e != nil {
			problem = fmt.Sprint(e)
		}
	}()
	sv, ok := m.ctx.VerifLocalValue(".stack")
	if !ok {
		return nil, "no .stack resource"
	}
	if !sv.IsTuple() {
		return nil, "stack is not a tuple: " + sv.String()
	}
	it := sv.AsTuple().Iterator()
	for !it.Done() {
		_, fr := it.Next()
		if !fr.IsFunction() {
			return nil, "stack element is not a record: " + fr.String()
		}
		of := obsFrame{pc: RVal{K: 'm'}, vars: map[string]RVal{}}
		fit := fr.AsFunction().Iterator()
		for !fit.Done() {
			k, v, _ := fit.Next()
			if !k.IsString() {
				return nil, "frame key is not a string: " + k.String()
			}
			if k.AsString() == ".pc" {
				of.pc = toRVal(v)
			} else {
				of.vars[k.AsString()] = toRVal(v)
			}
		}
		frames = append(frames, of)
	}
	return frames, ""
}

func pristineOK(got RVal) bool { return got.K == 'd' || got.K == 'm' }

// compare lists every difference between the real context and reference state st.
func (m *monitor) compare(st *State) []diff {
	var ds []diff
	if got := m.observeVar(".pc"); got != rStr(st.PC) {
		ds = append(ds, diff{".pc", "pc", got, rStr(st.PC)})
	}
	frames, problem := m.observeStack()
	if problem != "" {
		ds = append(ds, diff{".stack", "stack-malformed", RVal{K: 'o', S: problem}, rInt(int32(len(st.Stack)))})
	} else {
		if len(frames) != len(st.Stack) {
			ds = append(ds, diff{"stack depth", "stack-depth", rInt(int32(len(frames))), rInt(int32(len(st.Stack)))})
		}
		for i := 0; i < len(frames) && i < len(st.Stack); i++ {
			want := st.Stack[i]
			if frames[i].pc != rStr(want.PC) {
				ds = append(ds, diff{fmt.Sprintf("frame[%d]..pc", i), "frame-pc", frames[i].pc, rStr(want.PC)})
			}
			pr := m.prog.proc(want.Proc)
			for _, name := range pr.stateVars() {
				got, ok := frames[i].vars[name]
				if !ok {
					got = RVal{K: 'm'}
				}
				w := want.Saved[name]
				if got == w || (want.Pristine[name] && pristineOK(got) && ok) {
					continue
				}
				ds = append(ds, diff{fmt.Sprintf("frame[%d].%s", i, name), "frame-var", got, w})
			}
			for _, name := range sortedKeys(frames[i].vars) {
				// a frame may carry bookkeeping of its own; saving ANOTHER variable of the program is what is wrong
				if _, isCell := st.Vars[name]; !isCell {
					continue
				}
				if _, ok := want.Saved[name]; !ok {
					ds = append(ds, diff{fmt.Sprintf("frame[%d].%s", i, name), "frame-extra", frames[i].vars[name], RVal{K: 'm'}})
				}
			}
		}
	}
	for _, name := range sortedKeys(st.Vars) {
		want := st.Vars[name]
		got := m.observeVar(name)
		if got == want || (st.Pristine[name] && pristineOK(got)) {
			continue
		}
		cls := "proc-var"
		if strings.HasPrefix(name, m.prog.Arch+".") || strings.HasPrefix(name, "&") {
			cls = "arch-var"
		}
		ds = append(ds, diff{"var " + name, cls, got, want})
	}
	return ds
}

// adopt makes the observed state the reference state (used after a KNOWN finding so that the rest of the
// run is still compared step by step).
func (m *monitor) adopt() bool {
	st := m.ref.St.clone()
	pc := m.observeVar(".pc")
	if pc.K != 's' {
		return false
	}
	st.PC = pc.S
	frames, problem := m.observeStack()
	if problem != "" {
		return false
	}
	st.Stack = nil
	for _, f := range frames {
		if f.pc.K != 's' {
			return false
		}
		fr := Frame{PC: f.pc.S, Saved: map[string]RVal{}, Pristine: map[string]bool{}}
		for name, v := range f.vars {
			fr.Saved[name] = v
			if fr.Proc == "" {
				fr.Proc = strings.SplitN(name, ".", 2)[0]
			}
		}
		if fr.Proc == "" { // procedure without state variables: cannot tell which; give up
			return false
		}
		if m.prog.proc(fr.Proc) == nil {
			return false
		}
		for _, sv := range m.prog.proc(fr.Proc).stateVars() {
			if _, ok := fr.Saved[sv]; !ok {
				return false
			}
		}
		st.Stack = append(st.Stack, fr)
	}
	for name := range st.Vars {
		got := m.observeVar(name)
		if got.K == 'm' {
			if st.Pristine[name] {
				continue
			}
			return false
		}
		if st.Pristine[name] && got.K == 'd' {
			continue
		}
		st.Vars[name] = got
		delete(st.Pristine, name)
	}
	m.ref.St = st
	return true
}

func (m *monitor) raise(v *violation) {
	v.StepNo, v.Attempt = m.steps, m.attempt
	v.Trail = append([]string{}, m.trail...)
	resync := false
	if m.onViolation != nil {
		resync = m.onViolation(v)
	}
	if resync && (v.Kind == "state-after-commit" || v.Kind == "state-after-abort") && m.adopt() {
		m.expected = nil
		return
	}
	if m.viol == nil {
		m.viol = v
	}
}

func (m *monitor) stepInfo(v *violation) {
	if m.expected != nil {
		v.Term, v.Callee = m.expected.Term, m.expected.Callee
		if v.Callee != "" {
			for _, fr := range m.ref.St.Stack {
				if fr.Proc == v.Callee {
					v.Recursed = true
				}
			}
		}
	}
}

// body wraps the section of label `name`.
func (m *monitor) body(name string) func(distsys.ArchetypeInterface) error {
	return func(iface distsys.ArchetypeInterface) error {
		m.attempts++
		if m.viol != nil || m.truncated != "" {
			return errStopRun
		}
		if m.attempts > m.maxAttempts && m.resynced() {
			m.truncated = "attempt cap reached after resynchronising on a known finding"
			return errStopRun
		}
		if m.attempts > m.maxAttempts {
			m.raise(&violation{Kind: "step-cap", Label: name, Detail: fmt.Sprintf("more than %d attempts", m.maxAttempts)})
			return errStopRun
		}
		if name != m.ref.St.PC {
			m.raise(&violation{Kind: "wrong-label", Label: name, Detail: fmt.Sprintf("running %s, reference is at %s", name, m.ref.St.PC)})
			return errStopRun
		}
		// state before the attempt: equals the state after the last commit, also when attempts were aborted since
		if ds := m.compare(m.ref.St); len(ds) > 0 {
			kind := "state-after-commit"
			if m.lastEvent == "abort" {
				kind = "state-after-abort"
			}
			v := &violation{Kind: kind, Label: name, Diffs: ds}
			if m.lastEvent == "abort" {
				// the step that was aborted is the one still expected
				m.stepInfo(v)
				v.Term = m.ranTermOfAbort()
			} else {
				v.Term = "start"
			}
			m.raise(v)
			if m.viol != nil {
				return errStopRun
			}
		}
		if m.expected == nil {
			exp, err := m.ref.Peek()
			if err != nil {
				if m.resynced() {
					m.truncated = "reference cannot continue after resynchronising on a known finding: " + err.Error()
					return errStopRun
				}
				m.raise(&violation{Kind: "harness", Label: name, Detail: err.Error()})
				return errStopRun
			}
			m.expected = exp
		}
		m.reads = m.reads[:0]
		m.readDiffs = nil
		m.ranTerm = ""
		m.armPC = false
		m.pcFired = false
		if li := m.ref.labels[name]; li != nil && m.attempt < len(li.lb.Faults) && li.lb.Faults[m.attempt] == "pc" {
			m.armPC = true
		}
		return m.inner[name](iface)
	}
}

func (m *monitor) ranTermOfAbort() string {
	if m.lastAbortRan == "" {
		return "body"
	}
	return m.lastAbortRan
}

func (m *monitor) resynced() bool { return m.nResync > 0 }

// hooks -------------------------------------------------------------------------------------------------

func (m *monitor) commitDone() {
	m.steps++
	m.lastEvent = "commit"
	m.attempt = 0
	exp := m.expected
	m.expected = nil
	if exp == nil || m.viol != nil {
		return
	}
	m.addTrail("commit " + exp.Label + " (" + exp.Term + ")")
	// values the section read
	if !m.skipReads {
		if len(m.readDiffs) > 0 {
			v := &violation{Kind: "read", Label: exp.Label, Diffs: m.readDiffs, Term: exp.Term, Callee: exp.Callee}
			m.raise(v)
			if m.viol != nil {
				return
			}
		}
	}
	callee := exp.Callee
	recursed := false
	for _, fr := range m.ref.St.Stack {
		if callee != "" && fr.Proc == callee {
			recursed = true
		}
	}
	m.ref.Apply(exp)
	if ds := m.compare(m.ref.St); len(ds) > 0 {
		m.raise(&violation{Kind: "state-after-commit", Label: exp.Label, Term: exp.Term, Callee: callee, Recursed: recursed, Diffs: ds})
	}
	if m.stopAfterSteps > 0 && m.steps >= m.stopAfterSteps {
		m.stopOnce.Do(func() { go m.ctx.Stop() })
	}
}

func (m *monitor) abortPoint() {
	m.aborts++
	m.lastEvent = "abort"
	m.lastAbortRan = m.ranTerm
	if m.ranTerm != "" {
		m.abortsAfterTerm[m.ranTerm]++
	}
	m.addTrail(fmt.Sprintf("abort %s attempt %d (ran %q)", m.ref.St.PC, m.attempt, m.ranTerm))
	m.attempt++
}

// ----------------------------------------------------------------------------------------------------------
// compilation of label bodies, following MPCalGoCodegenPass

func (m *monitor) read(iface distsys.ArchetypeInterface, h distsys.ArchetypeResourceHandle, cell string) (tla.Value, error) {
	v, err := iface.Read(h, nil)
	if err != nil {
		return v, err
	}
	if !m.skipReads && m.expected != nil {
		i := len(m.reads)
		got := toRVal(v)
		m.reads = append(m.reads, Access{string(h), got})
		if i >= len(m.expected.Reads) {
			m.readDiffs = append(m.readDiffs, diff{fmt.Sprintf("read#%d of %s", i, cell), "extra-read", got, RVal{K: 'm'}})
		} else if want := m.expected.Reads[i]; want.Val != got && !(m.ref.St.Pristine[want.Cell] && pristineOK(got)) {
			m.readDiffs = append(m.readDiffs, diff{fmt.Sprintf("read#%d of %s (reference: %s)", i, cell, want.Cell), "read-value", got, want.Val})
		}
	}
	return v, nil
}

func (m *monitor) compileLabel(scope string, pr *Proc, lb *Label) func(distsys.ArchetypeInterface) error {
	p := m.prog
	isRef := func(name string) bool {
		if pr != nil {
			return pr.isRef(name)
		}
		return p.archIsRef(name)
	}
	// the state variables the section mentions (reads, assignment targets, conditions, value arguments)
	var used []string
	seen := map[string]bool{}
	use := func(n string) {
		if n != "" && !seen[n] {
			seen[n] = true
			used = append(used, n)
		}
	}
	useExpr := func(e *Expr) {
		if e != nil && e.K != "c" {
			use(e.V)
		}
	}
	for _, op := range lb.Ops {
		if op.K == "set" {
			useExpr(op.E)
			use(op.T)
		}
	}
	var walk func(t *Term)
	walk = func(t *Term) {
		if t == nil {
			return
		}
		if t.K == "if" {
			use(t.CV)
			walk(t.Then)
			walk(t.Else)
		}
		for _, a := range t.A {
			if !a.Ref {
				useExpr(a.E)
			}
		}
	}
	walk(&lb.Term)
	sort.Strings(used)

	return func(iface distsys.ArchetypeInterface) error {
		var err error
		handles := map[string]distsys.ArchetypeResourceHandle{}
		for _, n := range used {
			full := scope + "." + n
			if isRef(n) {
				handles[n], err = iface.RequireArchetypeResourceRef(full)
				if err != nil {
					return err
				}
			} else {
				handles[n] = iface.RequireArchetypeResource(full)
			}
		}
		evalE := func(e *Expr) (tla.Value, error) {
			if e.K == "c" {
				return tla.MakeNumber(e.C), nil
			}
			v, err := m.read(iface, handles[e.V], scope+"."+e.V)
			if err != nil {
				return v, err
			}
			if e.K == "v" {
				return v, nil
			}
			return tla.ModulePlusSymbol(v, tla.MakeNumber(e.C)), nil
		}
		for _, op := range lb.Ops {
			switch op.K {
			case "set":
				v, err := evalE(op.E)
				if err != nil {
					return err
				}
				if err = iface.Write(handles[op.T], nil, v); err != nil {
					return err
				}
			case "fault":
				if m.attempt < len(lb.Faults) && lb.Faults[m.attempt] == "op" {
					return distsys.ErrCriticalSectionAborted
				}
			}
		}
		t := &lb.Term
		for t.K == "if" {
			cv, err := m.read(iface, handles[t.CV], scope+"."+t.CV)
			if err != nil {
				return err
			}
			if tla.ModuleGreaterThanSymbol(cv, tla.MakeNumber(0)).AsBool() {
				t = t.Then
			} else {
				t = t.Else
			}
		}
		full := func(l string) string { return scope + "." + l }
		switch t.K {
		case "goto", "done":
			m.ranTerm = "goto"
			return iface.Goto(full(t.L))
		case "ret":
			m.ranTerm = "ret"
			return iface.Return()
		case "call", "tail":
			args := make([]tla.Value, len(t.A))
			for i, a := range t.A {
				switch {
				case a.Ref && isRef(a.V):
					args[i] = iface.ReadArchetypeResourceLocal(scope + "." + a.V)
				case a.Ref:
					args[i] = tla.MakeString(scope + "." + a.V)
				default:
					if args[i], err = evalE(a.E); err != nil {
						return err
					}
				}
			}
			m.ranTerm = t.K
			if t.K == "call" {
				return iface.Call(t.P, full(t.L), args...)
			}
			return iface.TailCall(t.P, args...)
		}
		panic("c04: bad terminator " + t.K)
	}
}

// build compiles the program and creates the context.
func (m *monitor) build() {
	p := m.prog
	m.inner = map[string]func(distsys.ArchetypeInterface) error{}
	m.probes = map[string]*probe{}
	m.abortsAfterTerm = map[string]int{}
	var sections []distsys.MPCalCriticalSection
	var procs []distsys.MPCalProc
	add := func(name string, inner func(distsys.ArchetypeInterface) error) {
		m.inner[name] = inner
		sections = append(sections, distsys.MPCalCriticalSection{Name: name, Body: m.body(name)})
	}
	for i := range p.Procs {
		pr := &p.Procs[i]
		for j := range pr.Labels {
			add(pr.Name+"."+pr.Labels[j].Name, m.compileLabel(pr.Name, pr, &pr.Labels[j]))
		}
		sections = append(sections, distsys.MPCalCriticalSection{Name: pr.Name + ".Error",
			Body: func(distsys.ArchetypeInterface) error { return distsys.ErrProcedureFallthrough }})
		locals := pr.Locals
		prName := pr.Name
		procs = append(procs, distsys.MPCalProc{
			Name: pr.Name, Label: pr.Name + "." + pr.Labels[0].Name, StateVars: pr.stateVars(),
			PreAmble: func(iface distsys.ArchetypeInterface) error {
				for _, l := range locals {
					h := iface.RequireArchetypeResource(prName + "." + l.Name)
					v := tla.ModuledefaultInitValue
					if l.Init != nil {
						v = tla.MakeNumber(*l.Init)
					}
					if err := iface.Write(h, nil, v); err != nil {
						return err
					}
				}
				return nil
			},
		})
	}
	for j := range p.Labels {
		add(p.Arch+"."+p.Labels[j].Name, m.compileLabel(p.Arch, nil, &p.Labels[j]))
	}
	doneName := p.Arch + ".Done"
	sections = append(sections, distsys.MPCalCriticalSection{Name: doneName, Body: func(distsys.ArchetypeInterface) error {
		// the reference must be done too, with the final state intact
		if m.viol == nil && m.truncated == "" {
			if m.ref.St.PC != doneName {
				m.raise(&violation{Kind: "wrong-label", Label: doneName, Detail: "reached Done, reference is at " + m.ref.St.PC})
			} else if ds := m.compare(m.ref.St); len(ds) > 0 {
				m.raise(&violation{Kind: "state-after-commit", Label: doneName, Term: "start", Diffs: ds})
			} else {
				m.finished = true
			}
		}
		return distsys.ErrDone
	}})
	arch := distsys.MPCalArchetype{
		Name: p.Arch, Label: p.Arch + "." + p.Labels[0].Name,
		JumpTable: distsys.MakeMPCalJumpTable(sections...), ProcTable: distsys.MakeMPCalProcTable(procs...),
		PreAmble: func(iface distsys.ArchetypeInterface) {
			for _, x := range p.Locals {
				iface.EnsureArchetypeResourceLocal(p.Arch+"."+x.Name, tla.MakeNumber(x.Init))
			}
		},
	}
	var cfg []distsys.MPCalContextConfigFn
	for _, x := range p.RefParams {
		arch.RequiredRefParams = append(arch.RequiredRefParams, p.Arch+"."+x.Name)
		pb := &probe{mon: m, value: tla.MakeNumber(x.Init), old: tla.MakeNumber(x.Init)}
		m.probes["&"+p.Arch+"."+x.Name] = pb
		cfg = append(cfg, distsys.EnsureArchetypeRefParam(x.Name, pb))
	}
	for _, x := range p.ValParams {
		arch.RequiredValParams = append(arch.RequiredValParams, p.Arch+"."+x.Name)
		cfg = append(cfg, distsys.EnsureArchetypeValueParam(x.Name, tla.MakeNumber(x.Init)))
	}
	m.ctx = distsys.NewMPCalContext(tla.MakeString("self"), arch, cfg...)
}

// ----------------------------------------------------------------------------------------------------------

var (
	curMu  sync.Mutex
	curMon = map[*distsys.MPCalContext]*monitor{}
)

func installHooks() {
	distsys.VerifHooks.CommitDone = func(ctx *distsys.MPCalContext, _ string, _ tla.Value) {
		curMu.Lock()
		m := curMon[ctx]
		curMu.Unlock()
		if m != nil {
			m.commitDone()
		}
	}
	distsys.VerifHooks.AbortPoint = func(ctx *distsys.MPCalContext, _ string, _ tla.Value, _ []trace.Element) {
		curMu.Lock()
		m := curMon[ctx]
		curMu.Unlock()
		if m != nil {
			m.abortPoint()
		}
	}
}

type runResult struct {
	Viol      *violation     `json:"violation,omitempty"`
	Steps     int            `json:"steps"`
	Attempts  int            `json:"attempts"`
	Aborts    int            `json:"aborts"`
	AfterTerm map[string]int `json:"aborts_after_term,omitempty"`
	Finished  bool           `json:"finished"`
	Truncated string         `json:"truncated,omitempty"`
	Resyncs   int            `json:"resyncs,omitempty"`
	PCFired   int            `json:"-"`
}

// runProgram executes p on a real context under the monitor. onViolation is told about every violation and
// answers whether the monitor may resynchronise and carry on (true only for open known findings).
func runProgram(p *Program, onViolation func(v *violation) bool) runResult {
	m := &monitor{prog: p, ref: NewInterp(p, false), maxAttempts: 5000, lastEvent: "start"}
	m.onViolation = func(v *violation) bool {
		ok := onViolation != nil && onViolation(v)
		if ok {
			m.nResync++
		}
		return ok
	}
	m.build()
	return m.run()
}

func (m *monitor) run() runResult {
	curMu.Lock()
	curMon[m.ctx] = m
	curMu.Unlock()
	defer func() {
		curMu.Lock()
		delete(curMon, m.ctx)
		curMu.Unlock()
	}()
	err := func() (err error) {
		defer func() {
			if e := recover(); e != nil {
				err = fmt.Errorf("panic: %v", e)
			}
		}()
		return m.ctx.Run()
	}()
	if err != nil && !errors.Is(err, errStopRun) && m.viol == nil && m.truncated == "" {
		kind := "run-error"
		if strings.HasPrefix(err.Error(), "panic: ") {
			kind = "panic"
		}
		v := &violation{Kind: kind, Label: m.ref.St.PC, Detail: err.Error(), Term: m.ranTerm}
		if m.expected != nil {
			v.Callee = m.expected.Callee
			if v.Term == "" { // the panic came before the terminator ran: name the phase
				v.Term = "body"
			}
		}
		if m.resynced() && kind == "panic" && v.Term == "body" {
			// a section computing with values the known finding corrupted
			m.truncated = "panic in a section body after resynchronising on a known finding: " + err.Error()
		} else {
			m.raise(v)
		}
	}
	if err == nil && m.viol == nil && m.truncated == "" && !m.finished && m.stopAfterSteps == 0 {
		m.raise(&violation{Kind: "not-finished", Label: m.ref.St.PC, Detail: "Run returned nil before the reference reached Done"})
	}
	return runResult{Viol: m.viol, Steps: m.steps, Attempts: m.attempts, Aborts: m.aborts, AfterTerm: m.abortsAfterTerm,
		Finished: m.finished, Truncated: m.truncated, Resyncs: m.nResync}
}

package main

// Calibration of the reference interpreter against the real PlusCal translator and TLC (DESIGN E4):
// the expansion of a generated program is printed as a PlusCal algorithm, translated with `pcal`, and the
// trace the reference interpreter (PcalMode) predicts for it is validated by TLC against the translation's Next
// relation, state by state (pc, stack with every saved frame, every variable). A rejected trace means the
// harness is wrong: the run is inconclusive, never a violation of the property.

import (
	"fmt"
	"os"
	"os/exec"
	"path/filepath"
	"regexp"
	"strings"
	"sync"
	"time"

	"verifh/common"
)

func tlaID(cell string) string {
	if strings.HasPrefix(cell, "&") {
		cell = "R_" + cell[1:]
	}
	return strings.ReplaceAll(cell, ".", "_")
}

func tlaVal(v RVal) string {
	switch v.K {
	case 'i':
		return fmt.Sprintf("%d", v.N)
	case 's':
		return fmt.Sprintf("%q", v.S)
	}
	return "defaultInitValue"
}

type pcalEmitter struct {
	sp *Program
}

func (e *pcalEmitter) varName(scope, v string) string {
	if isAbs(v) {
		return tlaID(v)
	}
	if scope == e.sp.Arch && e.sp.archIsRef(v) {
		return tlaID("&" + scope + "." + v)
	}
	return tlaID(scope + "." + v)
}

func (e *pcalEmitter) expr(scope string, x *Expr) string {
	switch x.K {
	case "c":
		return fmt.Sprintf("%d", x.C)
	case "v":
		return e.varName(scope, x.V)
	}
	if x.C < 0 {
		return fmt.Sprintf("%s - %d", e.varName(scope, x.V), -x.C)
	}
	return fmt.Sprintf("%s + %d", e.varName(scope, x.V), x.C)
}

func (e *pcalEmitter) label(scope, l string) string {
	if l == "Done" {
		return "Done"
	}
	return tlaID(scope + "." + l)
}

func (e *pcalEmitter) term(scope string, t *Term) string {
	switch t.K {
	case "goto", "done":
		return "goto " + e.label(scope, t.L)
	case "ret":
		return "return"
	case "if":
		return fmt.Sprintf("if (%s > 0) { %s } else { %s }", e.varName(scope, t.CV), e.term(scope, t.Then), e.term(scope, t.Else))
	case "call", "tail":
		var args []string
		for _, a := range t.A {
			args = append(args, e.expr(scope, a.E))
		}
		s := fmt.Sprintf("call %s(%s); ", t.P, strings.Join(args, ", "))
		if t.K == "call" {
			return s + "goto " + e.label(scope, t.L)
		}
		return s + "return"
	}
	panic("term " + t.K)
}

func (e *pcalEmitter) labels(scope string, lbs []Label, sb *strings.Builder) {
	for _, lb := range lbs {
		fmt.Fprintf(sb, "    %s:\n", e.label(scope, lb.Name))
		for _, op := range lb.Ops {
			if op.K == "set" {
				fmt.Fprintf(sb, "      %s := %s;\n", e.varName(scope, op.T), e.expr(scope, op.E))
			}
		}
		fmt.Fprintf(sb, "      %s;\n", e.term(scope, &lb.Term))
	}
}

// emitPlusCal prints the (ref-free) program sp as module `mod`.
func emitPlusCal(sp *Program, mod string) string {
	e := &pcalEmitter{sp}
	var sb strings.Builder
	fmt.Fprintf(&sb, "---- MODULE %s ----\nEXTENDS TLC, Sequences, Integers\n(* --algorithm %s {\n", mod, mod)
	var gl []string
	for _, x := range sp.Locals {
		gl = append(gl, fmt.Sprintf("%s = %d", tlaID(sp.Arch+"."+x.Name), x.Init))
	}
	for _, x := range sp.ValParams {
		gl = append(gl, fmt.Sprintf("%s = %d", tlaID(sp.Arch+"."+x.Name), x.Init))
	}
	for _, x := range sp.RefParams {
		gl = append(gl, fmt.Sprintf("%s = %d", tlaID("&"+sp.Arch+"."+x.Name), x.Init))
	}
	fmt.Fprintf(&sb, "  variables %s;\n", strings.Join(gl, ", "))
	for i := range sp.Procs {
		pr := &sp.Procs[i]
		var ps []string
		for _, prm := range pr.Params {
			ps = append(ps, tlaID(pr.Name+"."+prm.Name))
		}
		fmt.Fprintf(&sb, "  procedure %s(%s)\n", pr.Name, strings.Join(ps, ", "))
		if len(pr.Locals) > 0 {
			var ls []string
			for _, l := range pr.Locals {
				if l.Init != nil {
					ls = append(ls, fmt.Sprintf("%s = %d", tlaID(pr.Name+"."+l.Name), *l.Init))
				} else {
					ls = append(ls, tlaID(pr.Name+"."+l.Name))
				}
			}
			fmt.Fprintf(&sb, "    variables %s;\n", strings.Join(ls, ", "))
		}
		sb.WriteString("  {\n")
		e.labels(pr.Name, pr.Labels, &sb)
		sb.WriteString("  }\n")
	}
	sb.WriteString("  process (Proc = 1)\n  {\n")
	e.labels(sp.Arch, sp.Labels, &sb)
	sb.WriteString("  }\n} *)\n\\* BEGIN TRANSLATION\n\\* END TRANSLATION\n====\n")
	return sb.String()
}

// traceModule prints the module that makes TLC accept exactly the predicted trace.
func traceModule(sp *Program, mod string, states []*State) string {
	var sb strings.Builder
	fmt.Fprintf(&sb, "---- MODULE %sTrace ----\nEXTENDS %s\nVARIABLE tri\n", mod, mod)
	// the view of a state: a record of everything the reference interpreter predicts
	var cells []string
	st0 := states[0]
	for _, c := range sortedKeys(st0.Vars) {
		if st0.Vars[c].K == 's' { // identities of archetype resources do not exist in PlusCal
			continue
		}
		cells = append(cells, c)
	}
	isProcVar := map[string]bool{}
	for i := range sp.Procs {
		for _, v := range sp.Procs[i].stateVars() {
			isProcVar[v] = true
		}
	}
	var fields []string
	fields = append(fields, "pc |-> pc[1]", "stack |-> stack[1]")
	for _, c := range cells {
		if isProcVar[c] {
			fields = append(fields, fmt.Sprintf("%s |-> %s[1]", tlaID(c), tlaID(c)))
		} else {
			fields = append(fields, fmt.Sprintf("%s |-> %s", tlaID(c), tlaID(c)))
		}
	}
	fmt.Fprintf(&sb, "View == [%s]\n", strings.Join(fields, ", "))
	pcName := func(pc string) string {
		if pc == sp.Arch+".Done" {
			return "Done"
		}
		return tlaID(pc)
	}
	sb.WriteString("Trace == <<\n")
	for i, st := range states {
		var fs []string
		fs = append(fs, fmt.Sprintf("pc |-> %q", pcName(st.PC)))
		var frames []string
		for _, fr := range st.Stack {
			ff := []string{fmt.Sprintf("procedure |-> %q", fr.Proc), fmt.Sprintf("pc |-> %q", pcName(fr.PC))}
			for _, sv := range sp.proc(fr.Proc).stateVars() {
				ff = append(ff, fmt.Sprintf("%s |-> %s", tlaID(sv), tlaVal(fr.Saved[sv])))
			}
			frames = append(frames, "["+strings.Join(ff, ", ")+"]")
		}
		fs = append(fs, "stack |-> <<"+strings.Join(frames, ", ")+">>")
		for _, c := range cells {
			fs = append(fs, fmt.Sprintf("%s |-> %s", tlaID(c), tlaVal(st.Vars[c])))
		}
		sep := ","
		if i == len(states)-1 {
			sep = ""
		}
		fmt.Fprintf(&sb, "  [%s]%s\n", strings.Join(fs, ", "), sep)
	}
	sb.WriteString(">>\n")
	sb.WriteString("TInit == tri = 1 /\\ Init /\\ View = Trace[1]\n")
	sb.WriteString("TNext == tri < Len(Trace) /\\ tri' = tri + 1 /\\ Next /\\ View' = Trace[tri + 1]\n")
	sb.WriteString("NotAccepted == tri < Len(Trace)\n====\n")
	return sb.String()
}

var devPcalOnly bool // development aid: stop after pcal

var reDepth = regexp.MustCompile(`depth of the complete state graph search is (\d+)`)

type calibOutcome struct {
	Index    int     `json:"index"`
	States   int     `json:"states"`
	Accepted bool    `json:"accepted"`
	Problem  string  `json:"problem,omitempty"`
	Quirk    bool    `json:"tail_call_into_other_procedure"` // the PcalMode switch mattered for this program
	Wall     float64 `json:"wall_s"`
}

// calibrateOne runs pcal + TLC for program p; corrupt > 0 additionally damages the predicted trace (self-test).
func calibrateOne(p *Program, dir string, corrupt bool, pcalMode bool) (out calibOutcome) {
	start := time.Now()
	defer func() { out.Wall = time.Since(start).Seconds() }()
	_, sp, err := vet(p)
	if err != nil {
		out.Problem = "vet: " + err.Error()
		return out
	}
	in := NewInterp(sp, pcalMode)
	states := []*State{in.St}
	steps, err := in.RunAll(maxRefSteps)
	if err != nil {
		out.Problem = "reference (pcal mode): " + err.Error()
		return out
	}
	for _, s := range steps {
		states = append(states, s.Next)
	}
	// does the pcal peculiarity matter here?
	plain, _ := NewInterp(sp, false).RunAll(maxRefSteps)
	for i := range plain {
		if i < len(steps) && fmt.Sprint(plain[i].Next.Vars) != fmt.Sprint(steps[i].Next.Vars) {
			out.Quirk = true
		}
	}
	if corrupt {
		// damage one saved value or variable in the last third of the trace
		k := len(states) * 2 / 3
		st := states[k].clone()
		done := false
		if len(st.Stack) > 0 {
			fr := st.Stack[0]
			nf := Frame{Proc: fr.Proc, PC: fr.PC, Saved: map[string]RVal{}, Pristine: fr.Pristine}
			for n, v := range fr.Saved {
				nf.Saved[n] = v
			}
			for _, n := range sortedKeys(nf.Saved) {
				nf.Saved[n] = rInt(nf.Saved[n].N + 1)
				done = true
				break
			}
			st.Stack = append([]Frame{nf}, st.Stack[1:]...)
		}
		if !done {
			for _, n := range sortedKeys(st.Vars) {
				if st.Vars[n].K == 'i' {
					st.Vars[n] = rInt(st.Vars[n].N + 1)
					break
				}
			}
		}
		states[k] = st
	}
	out.States = len(states)
	mod := "Cal"
	if err := os.WriteFile(filepath.Join(dir, mod+".tla"), []byte(emitPlusCal(sp, mod)), 0o644); err != nil {
		out.Problem = err.Error()
		return out
	}
	cmd := exec.Command("pcal", "-nocfg", mod+".tla")
	cmd.Dir = dir
	cmd.Env = javaEnv()
	if b, err := cmd.CombinedOutput(); err != nil || !strings.Contains(string(b), "Translation completed") {
		out.Problem = "pcal rejected the program: " + tailStr(string(b), 400)
		return out
	}
	if devPcalOnly {
		out.Accepted = true
		return out
	}
	if err := os.WriteFile(filepath.Join(dir, mod+"Trace.tla"), []byte(traceModule(sp, mod, states)), 0o644); err != nil {
		out.Problem = err.Error()
		return out
	}
	cfg := "CONSTANT defaultInitValue = defaultInitValue\nINIT TInit\nNEXT TNext\nINVARIANT NotAccepted\n"
	_ = os.WriteFile(filepath.Join(dir, mod+"Trace.cfg"), []byte(cfg), 0o644)
	tlc := exec.Command("tlc", "-deadlock", "-workers", "1", "-noGenerateSpecTE", "-metadir", filepath.Join(dir, "states"), mod+"Trace.tla")
	tlc.Dir = dir
	tlc.Env = javaEnv()
	done := make(chan struct{})
	var b []byte
	go func() { b, _ = tlc.CombinedOutput(); close(done) }()
	select {
	case <-done:
	case <-time.After(5 * time.Minute): // watchdog: inconclusive only
		_ = tlc.Process.Kill()
		<-done
		out.Problem = "TLC watchdog"
		return out
	}
	txt := string(b)
	switch {
	case strings.Contains(txt, "Invariant NotAccepted is violated"):
		out.Accepted = true
	case strings.Contains(txt, "Model checking completed. No error has been found"):
		d := "?"
		if m := reDepth.FindStringSubmatch(txt); m != nil {
			d = m[1]
		}
		out.Problem = fmt.Sprintf("TLC rejects the predicted trace: accepted %s of %d states", d, len(states))
	default:
		out.Problem = "TLC failed: " + tailStr(txt, 600)
	}
	return out
}

// javaEnv keeps the JVMs of pcal and TLC small: the specs are tiny and many checks share the machine.
func javaEnv() []string {
	return append(os.Environ(), "JAVA_TOOL_OPTIONS=-XX:TieredStopAtLevel=1 -XX:ParallelGCThreads=1 -XX:CICompilerCount=1 -Xmx512m")
}

func tailStr(s string, n int) string {
	s = strings.TrimSpace(s)
	if len(s) > n {
		return "..." + s[len(s)-n:]
	}
	return s
}

type calibration struct {
	r        *common.Run
	want     int
	ch       chan calibJob
	mu       sync.Mutex
	outcomes []calibOutcome
	accepted int
	rejected int
	quirk    int
	selfTest string
	selfOnce sync.Once
	states   int
}

type calibJob struct {
	idx      int
	p        *Program
	selfTest bool
}

func newCalibration(r *common.Run, n int) *calibration {
	return &calibration{r: r, want: n, ch: make(chan calibJob, 2*n+2)}
}

func (c *calibration) offer(i int, p *Program) {
	c.ch <- calibJob{idx: i, p: p.Clone()}
	c.selfOnce.Do(func() { c.ch <- calibJob{idx: i, p: p.Clone(), selfTest: true} })
}
func (c *calibration) close() { close(c.ch) }

func (c *calibration) run() {
	dir := common.Scratch("c04-tlc")
	defer os.RemoveAll(dir)
	var wg sync.WaitGroup
	workers := c.r.Pick(4, 12)
	for w := 0; w < workers; w++ {
		wg.Add(1)
		go func(w int) {
			defer wg.Done()
			for job := range c.ch {
				if job.selfTest {
					// self-test of the calibration: a damaged trace of a program must be rejected by TLC
					d := filepath.Join(dir, "selftest")
					_ = os.MkdirAll(d, 0o755)
					so := calibrateOne(job.p, d, true, true)
					c.mu.Lock()
					switch {
					case so.Accepted:
						c.selfTest = "FAILED: TLC accepted a damaged trace"
						c.r.Inconclusive("calibration self-test: TLC accepted a damaged trace")
					case strings.HasPrefix(so.Problem, "TLC rejects"):
						c.selfTest = "ok: " + so.Problem
					default:
						c.selfTest = "inconclusive: " + so.Problem
					}
					c.mu.Unlock()
					continue
				}
				d := filepath.Join(dir, fmt.Sprintf("w%d-%d", w, job.idx))
				_ = os.MkdirAll(d, 0o755)
				out := calibrateOne(job.p, d, false, true)
				out.Index = job.idx
				_ = os.RemoveAll(d)
				c.mu.Lock()
				c.outcomes = append(c.outcomes, out)
				if out.Accepted {
					c.accepted++
					c.states += out.States
					if out.Quirk {
						c.quirk++
					}
				} else {
					c.rejected++
					c.r.Inconclusive(fmt.Sprintf("calibration of program %d: %s — %s", job.idx, out.Problem, job.p.JSON()))
				}
				c.mu.Unlock()
			}
		}(w)
	}
	wg.Wait()
}

func (c *calibration) summary() map[string]any {
	c.mu.Lock()
	defer c.mu.Unlock()
	maxStates, maxWall := 0, 0.0
	for _, o := range c.outcomes {
		if o.States > maxStates {
			maxStates = o.States
		}
		if o.Wall > maxWall {
			maxWall = o.Wall
		}
	}
	return map[string]any{
		"programs_offered":                      c.want,
		"traces_accepted_by_tlc":                c.accepted,
		"states_validated":                      c.states,
		"rejected_or_failed":                    c.rejected,
		"with_tail_call_into_another_procedure": c.quirk,
		"damaged_trace_self_test":               c.selfTest,
		"max_states_in_a_trace":                 maxStates,
		"max_wall_s_of_one_pcal_tlc_pair":       maxWall,
	}
}

package main

// Expansion of ref parameters (what MPCal's translation to PlusCal does: one copy of a procedure per binding
// of its ref parameters), validity of a program as PlusCal, program drawing and witness shrinking.

import (
	"errors"
	"fmt"
	"math/rand"
	"strings"
	"sync"
)

type inst struct {
	name string
	proc *Proc
	bind map[string]string // ref parameter -> cell
}

// specialise returns a ref-free program equivalent to p, or an error if the expansion is not finite (small).
func specialise(p *Program) (*Program, error) {
	out := &Program{Arch: p.Arch, Locals: p.Locals, RefParams: p.RefParams, ValParams: p.ValParams}
	insts := map[string]*inst{}
	var order []*inst
	count := map[string]int{}
	getInst := func(pr *Proc, roots []string) (*inst, error) {
		key := pr.Name + "(" + strings.Join(roots, ",") + ")"
		if in, ok := insts[key]; ok {
			return in, nil
		}
		if len(order) >= 14 {
			return nil, errors.New("expansion of ref parameters too large")
		}
		in := &inst{name: fmt.Sprintf("%s_%d", pr.Name, count[pr.Name]), proc: pr, bind: map[string]string{}}
		count[pr.Name]++
		i := 0
		for _, prm := range pr.Params {
			if prm.Ref {
				in.bind[prm.Name] = roots[i]
				i++
			}
		}
		insts[key] = in
		order = append(order, in)
		return in, nil
	}
	// name of a variable of scope (nil: archetype) as a cell of the specialised program
	cellOf := func(sc *inst, v string) string {
		if sc == nil {
			if p.archIsRef(v) {
				return "&" + p.Arch + "." + v
			}
			return p.Arch + "." + v
		}
		if c, ok := sc.bind[v]; ok {
			return c
		}
		return sc.name + "." + v
	}
	specExpr := func(sc *inst, e *Expr) *Expr {
		if e == nil || e.K == "c" {
			return e
		}
		return &Expr{K: e.K, V: cellOf(sc, e.V), C: e.C}
	}
	var specTerm func(sc *inst, t *Term) (*Term, error)
	specTerm = func(sc *inst, t *Term) (*Term, error) {
		if t == nil {
			return nil, nil
		}
		n := &Term{K: t.K, L: t.L}
		switch t.K {
		case "if":
			n.CV = cellOf(sc, t.CV)
			var err error
			if n.Then, err = specTerm(sc, t.Then); err != nil {
				return nil, err
			}
			if n.Else, err = specTerm(sc, t.Else); err != nil {
				return nil, err
			}
		case "call", "tail":
			callee := p.proc(t.P)
			var roots []string
			for _, a := range t.A {
				if a.Ref {
					roots = append(roots, cellOf(sc, a.V))
				} else {
					n.A = append(n.A, Arg{E: specExpr(sc, a.E)})
				}
			}
			ci, err := getInst(callee, roots)
			if err != nil {
				return nil, err
			}
			n.P = ci.name
		}
		return n, nil
	}
	specLabels := func(sc *inst, lbs []Label) ([]Label, error) {
		var res []Label
		for _, lb := range lbs {
			nl := Label{Name: lb.Name}
			for _, op := range lb.Ops {
				if op.K == "set" {
					nl.Ops = append(nl.Ops, Op{K: "set", T: cellOf(sc, op.T), E: specExpr(sc, op.E)})
				}
			}
			t, err := specTerm(sc, &lb.Term)
			if err != nil {
				return nil, err
			}
			nl.Term = *t
			res = append(res, nl)
		}
		return res, nil
	}
	var err error
	if out.Labels, err = specLabels(nil, p.Labels); err != nil {
		return nil, err
	}
	for i := 0; i < len(order); i++ { // order grows while we go
		in := order[i]
		np := Proc{Name: in.name, Locals: in.proc.Locals}
		for _, prm := range in.proc.Params {
			if !prm.Ref {
				np.Params = append(np.Params, prm)
			}
		}
		if np.Labels, err = specLabels(in, in.proc.Labels); err != nil {
			return nil, err
		}
		out.Procs = append(out.Procs, np)
	}
	return out, nil
}

// validPlusCal checks, on a specialised program, that no step assigns a variable twice (pcal would demand
// another label): explicit assignments of the label against each other and against what call / return / tail
// call assign implicitly.
func validPlusCal(sp *Program) error {
	varsOf := func(name string) map[string]bool {
		m := map[string]bool{}
		if pr := sp.proc(name); pr != nil {
			for _, v := range pr.stateVars() {
				m[v] = true
			}
		}
		return m
	}
	check := func(scope string, inProc bool, lb *Label) error {
		w := map[string]bool{}
		for _, op := range lb.Ops {
			if op.K != "set" {
				continue
			}
			c := op.T
			if !isAbs(c) {
				c = scope + "." + c
			}
			if w[c] {
				return fmt.Errorf("%s.%s assigns %s twice", scope, lb.Name, c)
			}
			w[c] = true
		}
		var walk func(t *Term) error
		walk = func(t *Term) error {
			implicit := map[string]bool{}
			switch t.K {
			case "if":
				if err := walk(t.Then); err != nil {
					return err
				}
				return walk(t.Else)
			case "call":
				implicit = varsOf(t.P)
				if t.P == scope { // pcal treats a call of the enclosing procedure like a return (coarse rule below)
					for i := range sp.Procs {
						for _, v := range sp.Procs[i].stateVars() {
							implicit[v] = true
						}
					}
				}
			case "ret", "tail":
				// pcal is coarse here: a return (also the one of `call; return`) needs a label of its own as soon as
				// the step has assigned a parameter or local of ANY procedure
				for i := range sp.Procs {
					for _, v := range sp.Procs[i].stateVars() {
						implicit[v] = true
					}
				}
			}
			for c := range w {
				if implicit[c] {
					return fmt.Errorf("%s.%s assigns %s and its %s assigns it again", scope, lb.Name, c, t.K)
				}
			}
			return nil
		}
		return walk(&lb.Term)
	}
	for i := range sp.Labels {
		if err := check(sp.Arch, false, &sp.Labels[i]); err != nil {
			return err
		}
	}
	for i := range sp.Procs {
		for j := range sp.Procs[i].Labels {
			if err := check(sp.Procs[i].Name, true, &sp.Procs[i].Labels[j]); err != nil {
				return err
			}
		}
	}
	return nil
}

const maxRefSteps = 260

// vet decides whether p is a program the check may use; it returns the reference run's statistics.
// "harness:" errors mean the harness contradicts itself (reference run on the program vs on its expansion).
func vet(p *Program) (programStats, *Program, error) {
	var none programStats
	sp, err := specialise(p)
	if err != nil {
		return none, nil, fmt.Errorf("expansion: %w", err)
	}
	if err := validPlusCal(sp); err != nil {
		return none, nil, fmt.Errorf("pluscal: %w", err)
	}
	steps, err := NewInterp(p, false).RunAll(maxRefSteps)
	if err != nil {
		var ee *evalErr
		if errors.As(err, &ee) {
			return none, nil, fmt.Errorf("reads-default: %w", err)
		}
		if strings.Contains(err.Error(), "more than") {
			return none, nil, fmt.Errorf("too-long: %w", err)
		}
		return none, nil, fmt.Errorf("harness: reference run failed: %w", err)
	}
	// the expansion must behave identically (values read and written, control transfers, archetype variables)
	ssteps, err := NewInterp(sp, false).RunAll(maxRefSteps)
	if err != nil {
		return none, nil, fmt.Errorf("harness: reference run of the expansion failed: %w", err)
	}
	if len(steps) != len(ssteps) {
		return none, nil, fmt.Errorf("harness: expansion takes %d steps, program %d", len(ssteps), len(steps))
	}
	for i := range steps {
		a, b := steps[i], ssteps[i]
		if a.Term != b.Term || len(a.Reads) != len(b.Reads) || len(a.Writes) != len(b.Writes) {
			return none, nil, fmt.Errorf("harness: expansion differs at step %d (%s)", i, a.Label)
		}
		for j := range a.Reads {
			if a.Reads[j].Val != b.Reads[j].Val {
				return none, nil, fmt.Errorf("harness: expansion reads %v, program %v at step %d (%s)", b.Reads[j], a.Reads[j], i, a.Label)
			}
		}
		for j := range a.Writes {
			if a.Writes[j].Val != b.Writes[j].Val {
				return none, nil, fmt.Errorf("harness: expansion writes differ at step %d (%s)", i, a.Label)
			}
		}
	}
	if len(steps) > 0 {
		fa, fb := steps[len(steps)-1].Next, ssteps[len(ssteps)-1].Next
		for k, v := range fa.Vars {
			if strings.HasPrefix(k, p.Arch+".") || strings.HasPrefix(k, "&") {
				if fb.Vars[k] != v {
					return none, nil, fmt.Errorf("harness: expansion ends with %s = %v, program with %v", k, fb.Vars[k], v)
				}
			}
		}
	}
	return statsOf(p, steps), sp, nil
}

// drawValidProgram draws programs until one passes vet.
func drawValidProgram(rng *rand.Rand, rejected map[string]int) (*Program, programStats, string) {
	why := ""
	for try := 0; try < 400; try++ {
		p := genProgram(rng)
		fixMissingArgs(p)
		st, _, err := vet(p)
		if err == nil {
			return p, st, ""
		}
		why = err.Error()
		cls := strings.SplitN(why, ":", 2)[0]
		rejected[cls]++
		if cls == "harness" {
			return nil, st, why + " in " + p.JSON()
		}
	}
	return nil, programStats{}, why
}

// ----------------------------------------------------------------------------------------------------------
// shrinking: greedy removal of faults, assignments, call sites and fuel while the same key is still produced

// knownKeys: keys that matched an open known finding during this run (learned from Report's answer).
var knownKeys sync.Map

// firstViolation runs p and returns the first violation that is not a known finding other than `target`.
func firstViolation(p *Program, target string) *violation {
	res := runProgram(p, func(v *violation) bool {
		_, known := knownKeys.Load(v.key())
		return known && v.key() != target
	})
	return res.Viol
}

func shrink(p *Program, key string) (*Program, *violation) {
	cur := p.Clone()
	curV := firstViolation(cur, key)
	if curV == nil || curV.key() != key {
		return nil, nil // not the first violation of the run (e.g. seen after a resynchronisation): keep the original
	}
	budget := 250
	try := func(cand *Program) bool {
		if budget <= 0 {
			return false
		}
		budget--
		if _, _, err := vet(cand); err != nil {
			return false
		}
		v := firstViolation(cand, key)
		if v != nil && v.key() == key {
			cur, curV = cand, v
			return true
		}
		return false
	}
	allLabels := func(q *Program) []*Label {
		var out []*Label
		for i := range q.Labels {
			out = append(out, &q.Labels[i])
		}
		for i := range q.Procs {
			for j := range q.Procs[i].Labels {
				out = append(out, &q.Procs[i].Labels[j])
			}
		}
		return out
	}
	for progress := true; progress && budget > 0; {
		progress = false
		n := len(allLabels(cur))
		for li := 0; li < n; li++ {
			// drop the fault plan
			if lb := allLabels(cur)[li]; len(lb.Faults) > 0 {
				c := cur.Clone()
				l := allLabels(c)[li]
				l.Faults = nil
				var ops []Op
				for _, op := range l.Ops {
					if op.K != "fault" {
						ops = append(ops, op)
					}
				}
				l.Ops = ops
				if try(c) {
					progress = true
				}
			}
			// drop assignments
			for oi := len(allLabels(cur)[li].Ops) - 1; oi >= 0; oi-- {
				if allLabels(cur)[li].Ops[oi].K != "set" {
					continue
				}
				c := cur.Clone()
				l := allLabels(c)[li]
				l.Ops = append(append([]Op{}, l.Ops[:oi]...), l.Ops[oi+1:]...)
				if try(c) {
					progress = true
				}
			}
			// replace a guarded call by its else branch
			if lb := allLabels(cur)[li]; lb.Term.K == "if" {
				c := cur.Clone()
				l := allLabels(c)[li]
				l.Term = *l.Term.Else
				if try(c) {
					progress = true
				}
			}
			// archetype call without callee: plain goto
			if lb := allLabels(cur)[li]; lb.Term.K == "call" {
				c := cur.Clone()
				l := allLabels(c)[li]
				if l.Term.L == "Done" {
					l.Term = Term{K: "done", L: "Done"}
				} else {
					l.Term = Term{K: "goto", L: l.Term.L}
				}
				if try(c) {
					progress = true
				}
			}
			// less fuel
			if lb := allLabels(cur)[li]; lb.Term.K == "call" && len(lb.Term.A) > 0 && lb.Term.A[0].E != nil && lb.Term.A[0].E.K == "c" && lb.Term.A[0].E.C > 0 {
				c := cur.Clone()
				l := allLabels(c)[li]
				l.Term.A[0].E.C--
				if try(c) {
					progress = true
				}
			}
		}
		// drop procedures nobody calls any more
		used := map[string]bool{}
		var mark func(t *Term)
		mark = func(t *Term) {
			if t == nil {
				return
			}
			if t.P != "" {
				used[t.P] = true
			}
			mark(t.Then)
			mark(t.Else)
		}
		for _, lb := range allLabels(cur) {
			mark(&lb.Term)
		}
		for i := range cur.Procs {
			if !used[cur.Procs[i].Name] {
				c := cur.Clone()
				c.Procs = append(append([]Proc{}, c.Procs[:i]...), c.Procs[i+1:]...)
				if len(c.Procs) > 0 && try(c) {
					progress = true
					break
				}
			}
		}
	}
	return cur, curV
}

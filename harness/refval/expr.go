package refval

import (
	"fmt"
	"strings"
)

// Lit is a literal value tree with an explicit choice of *representation* (a sequence can be written
// as a tuple or as a function with domain 1..n; the runtime under test distinguishes the two, TLA+
// does not). It is what generators produce, what replay files store, and what is printed for TLC.
type Lit struct {
	T  string `json:"t"` // b i s set tup fn dflt
	B  bool   `json:"b,omitempty"`
	I  int64  `json:"i,omitempty"`
	S  string `json:"s,omitempty"`
	Xs []Lit  `json:"x,omitempty"` // elements (set, tup) or keys (fn), in construction order
	Ys []Lit  `json:"y,omitempty"` // fn values, parallel to Xs
}

func LB(b bool) Lit      { return Lit{T: "b", B: b} }
func LI(i int64) Lit     { return Lit{T: "i", I: i} }
func LS(s string) Lit    { return Lit{T: "s", S: s} }
func LSet(xs ...Lit) Lit { return Lit{T: "set", Xs: xs} }
func LTup(xs ...Lit) Lit { return Lit{T: "tup", Xs: xs} }
func LFn(k, v []Lit) Lit { return Lit{T: "fn", Xs: k, Ys: v} }
func LDefault() Lit      { return Lit{T: "dflt"} }

// V returns the canonical value the literal denotes in TLA+.
func (l Lit) V() V {
	switch l.T {
	case "b":
		return Bool(l.B)
	case "i":
		return Int(l.I)
	case "s":
		return Str(l.S)
	case "dflt":
		return Model()
	case "set":
		es := make([]V, len(l.Xs))
		for i, x := range l.Xs {
			es[i] = x.V()
		}
		return MkSet(es)
	case "tup":
		es := make([]V, len(l.Xs))
		for i, x := range l.Xs {
			es[i] = x.V()
		}
		return MkTuple(es)
	case "fn":
		ks := make([]V, len(l.Xs))
		vs := make([]V, len(l.Xs))
		for i := range l.Xs {
			ks[i] = l.Xs[i].V()
			vs[i] = l.Ys[i].V()
		}
		return MkFn(ks, vs)
	}
	panic("bad literal tag " + l.T)
}

// TLA renders the literal as a TLA+ expression TLC can parse.
func (l Lit) TLA() string {
	switch l.T {
	case "b":
		if l.B {
			return "TRUE"
		}
		return "FALSE"
	case "i":
		return intText(l.I)
	case "s":
		return strText(l.S)
	case "dflt":
		return "defaultInitValue"
	case "set", "tup":
		parts := make([]string, len(l.Xs))
		for i, x := range l.Xs {
			parts[i] = x.TLA()
		}
		if l.T == "set" {
			return "{" + strings.Join(parts, ", ") + "}"
		}
		return "<<" + strings.Join(parts, ", ") + ">>"
	case "fn":
		if len(l.Xs) == 0 {
			return "[zz \\in {} |-> zz]"
		}
		// later pairs overwrite earlier ones: @@ gives priority to the left, so print in reverse
		parts := []string{}
		for i := len(l.Xs) - 1; i >= 0; i-- {
			parts = append(parts, "("+l.Xs[i].TLA()+" :> "+l.Ys[i].TLA()+")")
		}
		return "(" + strings.Join(parts, " @@ ") + ")"
	}
	return "?"
}

// FromV writes a canonical value back as a literal. seqAsTuple selects the tuple representation for
// functions with domain 1..n.
func FromV(v V, seqAsTuple bool) Lit {
	switch v.K {
	case KBool:
		return LB(v.B)
	case KInt:
		return LI(v.I)
	case KStr:
		return LS(v.S)
	case KModel:
		return LDefault()
	case KSet, KSeqSet:
		xs := make([]Lit, len(v.E))
		for i, e := range v.E {
			xs[i] = FromV(e, seqAsTuple)
		}
		return Lit{T: "set", Xs: xs}
	case KFn:
		if seqAsTuple && v.IsSeq() {
			xs := make([]Lit, len(v.R))
			for i, e := range v.R {
				xs[i] = FromV(e, seqAsTuple)
			}
			return Lit{T: "tup", Xs: xs}
		}
		ks := make([]Lit, len(v.D))
		vs := make([]Lit, len(v.D))
		for i := range v.D {
			ks[i] = FromV(v.D[i], seqAsTuple)
			vs[i] = FromV(v.R[i], seqAsTuple)
		}
		return Lit{T: "fn", Xs: ks, Ys: vs}
	}
	panic("FromV")
}

// Expr is an expression over the operators of the runtime library.
//
//	lit                      Lit
//	var                      Var = absolute environment slot
//	Module*                  Args (the exported operator functions, by their Go name)
//	and or implies if        Args (compiled to native short-circuit Go by the compiler)
//	forall exists            Args = bound sets, Body over len(Args) new slots
//	choose setref            Args = [set], Body over 1 new slot
//	setcomp mkfn             Args = bound sets, Body over len(Args) new slots
//	cross fnset mkset mktup  Args
//	recset mkrec             Names, Args
//	apply                    Args = [f, x]
//	select                   Args = [set], Idx
//	except                   Args = [source], Subs (Val sees @ in 1 new slot)
type Expr struct {
	Op    string   `json:"op"`
	Lit   *Lit     `json:"lit,omitempty"`
	Var   int      `json:"var,omitempty"`
	Args  []Expr   `json:"args,omitempty"`
	Body  *Expr    `json:"body,omitempty"`
	Names []string `json:"names,omitempty"`
	Subs  []Sub    `json:"subs,omitempty"`
	Idx   int      `json:"idx,omitempty"`
}

type Sub struct {
	Keys []Expr `json:"keys"`
	Val  Expr   `json:"val"`
}

func ELit(l Lit) Expr                  { return Expr{Op: "lit", Lit: &l} }
func EVar(i int) Expr                  { return Expr{Op: "var", Var: i} }
func EOp(op string, args ...Expr) Expr { return Expr{Op: op, Args: args} }

// Binders returns how many new slots the node binds for its Body (0 if none).
func (e *Expr) Binders() int {
	switch e.Op {
	case "forall", "exists", "setcomp", "mkfn":
		return len(e.Args)
	case "choose", "setref":
		return 1
	}
	return 0
}

var infix = map[string]string{
	"ModuleEqualsSymbol": "=", "ModuleNotEqualsSymbol": "/=", "ModuleEquivSymbol": "<=>",
	"ModulePlusSymbol": "+", "ModuleMinusSymbol": "-", "ModuleAsteriskSymbol": "*", "ModuleSuperscriptSymbol": "^",
	"ModuleLessThanOrEqualSymbol": "<=", "ModuleGreaterThanOrEqualSymbol": ">=", "ModuleLessThanSymbol": "<",
	"ModuleGreaterThanSymbol": ">", "ModuleDotDotSymbol": "..", "ModuleDivSymbol": "\\div", "ModulePercentSymbol": "%",
	"ModuleInSymbol": "\\in", "ModuleNotInSymbol": "\\notin", "ModuleIntersectSymbol": "\\cap", "ModuleUnionSymbol": "\\cup",
	"ModuleSubsetOrEqualSymbol": "\\subseteq", "ModuleBackslashSymbol": "\\", "ModuleOSymbol": "\\o",
	"ModuleColonGreaterThanSymbol": ":>", "ModuleDoubleAtSignSymbol": "@@",
	"and": "/\\", "or": "\\/", "implies": "=>",
}

var prefixCall = map[string]string{
	"ModuleAssert": "Assert", "ModuleToString": "ToString", "ModuleIsFiniteSet": "IsFiniteSet", "ModuleCardinality": "Cardinality",
	"ModuleSeq": "Seq", "ModuleLen": "Len", "ModuleAppend": "Append", "ModuleHead": "Head", "ModuleTail": "Tail", "ModuleSubSeq": "SubSeq",
}

// TLA renders the expression as TLA+ text; slot i is printed as the identifier v<i>.
func (e *Expr) TLA(depth int) string { return e.tla(depth, -1) }

func (e *Expr) tla(depth, at int) string {
	vn := func(i int) string {
		if i == at {
			return "@"
		}
		return fmt.Sprintf("v%d", i)
	}
	args := func() []string {
		out := make([]string, len(e.Args))
		for i := range e.Args {
			out[i] = e.Args[i].tla(depth, at)
		}
		return out
	}
	binds := func() string {
		a := args()
		parts := make([]string, len(a))
		for i := range a {
			parts[i] = vn(depth+i) + " \\in " + a[i]
		}
		return strings.Join(parts, ", ")
	}
	if s, ok := infix[e.Op]; ok {
		a := args()
		return "((" + a[0] + ") " + s + " (" + a[1] + "))"
	}
	if s, ok := prefixCall[e.Op]; ok {
		return s + "(" + strings.Join(args(), ", ") + ")"
	}
	switch e.Op {
	case "lit":
		return e.Lit.TLA()
	case "var":
		return vn(e.Var)
	case "ModuleTRUE":
		return "TRUE"
	case "ModuleFALSE":
		return "FALSE"
	case "ModuleBOOLEAN":
		return "BOOLEAN"
	case "ModuleZero":
		return "0"
	case "ModuledefaultInitValue":
		return "defaultInitValue"
	case "ModuleLogicalNotSymbol":
		return "(~(" + args()[0] + "))"
	case "ModuleNegationSymbol":
		return "(-(" + args()[0] + "))"
	case "ModulePrefixSubsetSymbol":
		return "(SUBSET (" + args()[0] + "))"
	case "ModulePrefixUnionSymbol":
		return "(UNION (" + args()[0] + "))"
	case "ModuleDomainSymbol":
		return "(DOMAIN (" + args()[0] + "))"
	case "ModuleSelectSeq":
		a := args()
		return "SelectSeq(" + a[0] + ", " + a[1] + ")"
	case "if":
		a := args()
		return "(IF " + a[0] + " THEN " + a[1] + " ELSE " + a[2] + ")"
	case "forall":
		return "(\\A " + binds() + " : " + e.Body.tla(depth+len(e.Args), at) + ")"
	case "exists":
		return "(\\E " + binds() + " : " + e.Body.tla(depth+len(e.Args), at) + ")"
	case "choose":
		return "(CHOOSE " + binds() + " : " + e.Body.tla(depth+1, at) + ")"
	case "setref":
		return "{" + binds() + " : " + e.Body.tla(depth+1, at) + "}"
	case "setcomp":
		return "{" + e.Body.tla(depth+len(e.Args), at) + " : " + binds() + "}"
	case "mkfn":
		return "[" + binds() + " |-> " + e.Body.tla(depth+len(e.Args), at) + "]"
	case "cross":
		a := args()
		for i := range a {
			a[i] = "(" + a[i] + ")"
		}
		return "(" + strings.Join(a, " \\X ") + ")"
	case "fnset":
		a := args()
		return "[" + a[0] + " -> " + a[1] + "]"
	case "mkset":
		return "{" + strings.Join(args(), ", ") + "}"
	case "mktup":
		return "<<" + strings.Join(args(), ", ") + ">>"
	case "recset", "mkrec":
		a := args()
		sep := " |-> "
		if e.Op == "recset" {
			sep = " : "
		}
		parts := make([]string, len(a))
		for i := range a {
			parts[i] = e.Names[i] + sep + a[i]
		}
		return "[" + strings.Join(parts, ", ") + "]"
	case "apply":
		a := args()
		return "(" + a[0] + ")[" + a[1] + "]"
	case "select":
		return fmt.Sprintf("SelectElement(%s, %d)", args()[0], e.Idx)
	case "except":
		parts := []string{}
		for _, s := range e.Subs {
			p := "!"
			for _, k := range s.Keys {
				p += "[" + k.tla(depth, at) + "]"
			}
			val := s.Val.tla(depth+1, depth) // @ is slot `depth` inside Val
			parts = append(parts, p+" = "+val)
		}
		return "[" + args()[0] + " EXCEPT " + strings.Join(parts, ", ") + "]"
	}
	return "?" + e.Op
}

// Walk visits every node.
func (e *Expr) Walk(f func(*Expr)) {
	f(e)
	for i := range e.Args {
		e.Args[i].Walk(f)
	}
	if e.Body != nil {
		e.Body.Walk(f)
	}
	for i := range e.Subs {
		for j := range e.Subs[i].Keys {
			e.Subs[i].Keys[j].Walk(f)
		}
		e.Subs[i].Val.Walk(f)
	}
}

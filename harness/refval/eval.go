package refval

import (
	"fmt"
)

// Bounds beyond which the reference declines (results the runtime could not be expected to build).
const (
	MaxRange    = 4096
	MaxSubsetOf = 10
	MaxBuilt    = 20000 // elements of a constructed set / function
)

// Evaluator evaluates expressions with TLC's semantics, counting steps.
type Evaluator struct {
	Steps int64
	Limit int64 // 0 = unlimited
	// ExceptOutside is set when an EXCEPT path left the domain (TLC: unchanged + warning; the
	// fragment's documented restriction allows a loud type error there).
	ExceptOutside bool
	// Free is set when the evaluation went through an operator whose result TLA+ does not pin down
	// (CHOOSE with several candidates, SelectElement, ToString of a composite value): the value
	// computed from there on is one of several admissible ones.
	Free bool
}

func (ev *Evaluator) tick(n int) error {
	ev.Steps += int64(n)
	if ev.Limit > 0 && ev.Steps > ev.Limit {
		return unknown("step limit")
	}
	return nil
}

// NodeArgs are the evaluated direct arguments of a node.
type NodeArgs struct {
	Args    []V
	SubKeys [][]V // except: evaluated keys per substitution
}

func asBool(v V, what string) (bool, error) {
	if v.K != KBool {
		return false, errf("type", "%s: expected a Boolean, got %s", what, v)
	}
	return v.B, nil
}

func asInt(v V, what string) (int64, error) {
	if v.K != KInt {
		return 0, errf("type", "%s: expected an integer, got %s", what, v)
	}
	return v.I, nil
}

func asSet(v V, what string) (V, error) {
	if v.K == KSeqSet {
		return V{}, unknown("%s: Seq(S) is not enumerable", what)
	}
	if v.K == KFn && (len(v.D) == 0 || what == "IsFiniteSet") {
		return V{}, unknown("%s: TLC quietly accepts %s as a set", what, v)
	}
	if v.K != KSet {
		return V{}, errf("type", "%s: expected a set, got %s", what, v)
	}
	return v, nil
}

func asFn(v V, what string) (V, error) {
	if v.K != KFn {
		return V{}, errf("type", "%s: expected a function, got %s", what, v)
	}
	return v, nil
}

func asSeq(v V, what string) (V, error) {
	if v.K != KFn || !v.IsSeq() {
		return V{}, errf("type", "%s: expected a sequence, got %s", what, v)
	}
	return v, nil
}

func ranged(i int64, what string) (V, error) {
	if i > MaxInt || i < MinInt {
		return V{}, errf("overflow", "overflow when computing %s", what)
	}
	return Int(i), nil
}

func checkedSet(elems []V, what string) (V, error) {
	s := MkSet(elems)
	switch Normalisable(s.E) {
	case CmpNo:
		return V{}, errf("compare", "%s: elements are not comparable: %s", what, s)
	case CmpMurky:
		return V{}, unknown("%s: elements of %s may be incomparable for TLC", what, s)
	}
	return s, nil
}

func crossComparable(a, b V) int {
	st := CmpYes
	for _, x := range a.E {
		for _, y := range b.E {
			switch Comparable(x, y) {
			case CmpNo:
				return CmpNo
			case CmpMurky:
				st = CmpMurky
			}
		}
	}
	return st
}

// Member is x \in s with TLC's error behaviour.
func Member(x, s V) (bool, error) {
	switch s.K {
	case KSet:
		switch crossComparable(V{K: KSet, E: []V{x}}, s) {
		case CmpNo:
			return false, errf("compare", "%s \\in %s compares incomparable values", x, s)
		case CmpMurky:
			return false, unknown("%s \\in %s may compare incomparable values", x, s)
		}
		return s.Has(x), nil
	case KSeqSet:
		if x.K == KModel {
			return false, unknown("model value in Seq")
		}
		if x.K != KFn || !x.IsSeq() {
			return false, errf("type", "non-sequence %s tested for membership in Seq(S)", x)
		}
		base := V{K: KSet, E: s.E}
		for _, r := range x.R {
			ok, err := Member(r, base)
			if err != nil {
				return false, err
			}
			if !ok {
				return false, nil
			}
		}
		return true, nil
	}
	return false, errf("type", "\\in: right-hand side %s is not a set", s)
}

// Eval evaluates e in env.
func (ev *Evaluator) Eval(e *Expr, env []V) (V, error) {
	if err := ev.tick(1); err != nil {
		return V{}, err
	}
	switch e.Op {
	case "lit":
		return e.Lit.V(), nil
	case "var":
		if e.Var < 0 || e.Var >= len(env) {
			return V{}, unknown("unbound slot %d", e.Var)
		}
		return env[e.Var], nil
	case "and", "or", "implies":
		l, err := ev.Eval(&e.Args[0], env)
		if err != nil {
			return V{}, err
		}
		lb, err := asBool(l, e.Op)
		if err != nil {
			return V{}, err
		}
		if (e.Op == "and" && !lb) || (e.Op == "or" && lb) {
			return Bool(lb), nil
		}
		if e.Op == "implies" && !lb {
			return Bool(true), nil
		}
		r, err := ev.Eval(&e.Args[1], env)
		if err != nil {
			return V{}, err
		}
		rb, err := asBool(r, e.Op)
		if err != nil {
			return V{}, err
		}
		return Bool(rb), nil
	case "if":
		c, err := ev.Eval(&e.Args[0], env)
		if err != nil {
			return V{}, err
		}
		cb, err := asBool(c, "IF")
		if err != nil {
			return V{}, err
		}
		if cb {
			return ev.Eval(&e.Args[1], env)
		}
		return ev.Eval(&e.Args[2], env)
	}
	var na NodeArgs
	for i := range e.Args {
		v, err := ev.Eval(&e.Args[i], env)
		if err != nil {
			return V{}, err
		}
		na.Args = append(na.Args, v)
	}
	for i := range e.Subs {
		var ks []V
		for j := range e.Subs[i].Keys {
			v, err := ev.Eval(&e.Subs[i].Keys[j], env)
			if err != nil {
				return V{}, err
			}
			ks = append(ks, v)
		}
		na.SubKeys = append(na.SubKeys, ks)
	}
	return ev.ApplyNode(e, na, env)
}

// IsChoice reports whether the node's result is only constrained to lie in a candidate set.
func IsChoice(op string) bool { return op == "choose" || op == "select" }

// Candidates returns the admissible results of a choice node (CHOOSE: the elements satisfying the
// predicate; SelectElement: the elements of the set when the index is in range).
func (ev *Evaluator) Candidates(e *Expr, a NodeArgs, env []V) ([]V, error) {
	switch e.Op {
	case "select":
		s, err := asSet(a.Args[0], "SelectElement")
		if err != nil {
			return nil, err
		}
		if e.Idx < 0 || e.Idx >= len(s.E) {
			return nil, errf("domain", "element %d of a set with %d elements", e.Idx, len(s.E))
		}
		return s.E, nil
	case "choose":
		s, err := asSet(a.Args[0], "CHOOSE")
		if err != nil {
			return nil, err
		}
		var out []V
		var firstErr error
		for _, x := range s.E {
			if err := ev.tick(1); err != nil {
				return nil, err
			}
			r, err := ev.Eval(e.Body, append(env[:len(env):len(env)], x))
			var b bool
			if err == nil {
				b, err = asBool(r, "CHOOSE predicate")
			}
			if err != nil {
				if IsUnknown(err) {
					return nil, err
				}
				if firstErr == nil {
					firstErr = err
				}
				continue
			}
			if b {
				out = append(out, x)
			}
		}
		if firstErr != nil {
			if len(out) == 0 {
				return nil, firstErr
			}
			return nil, unknown("CHOOSE predicate fails on some elements; TLC's answer depends on its enumeration order")
		}
		if len(out) == 0 {
			return nil, errf("choose", "CHOOSE: no element of %s satisfies the predicate", s)
		}
		return out, nil
	}
	return nil, unknown("not a choice node")
}

// product enumerates the cartesian product of sets, calling f with env extended by one element per set.
func (ev *Evaluator) product(sets []V, env []V, f func(env []V) error) error {
	base := len(env)
	cur := append(env[:base:base], make([]V, len(sets))...)
	var rec func(i int) error
	rec = func(i int) error {
		if i == len(sets) {
			return f(cur)
		}
		for _, x := range sets[i].E {
			if err := ev.tick(1); err != nil {
				return err
			}
			cur[base+i] = x
			if err := rec(i + 1); err != nil {
				return err
			}
		}
		return nil
	}
	return rec(0)
}

func (ev *Evaluator) setsOf(args []V, what string) ([]V, int, error) {
	sets := make([]V, len(args))
	total := 1
	for i, a := range args {
		s, err := asSet(a, what)
		if err != nil {
			return nil, 0, err
		}
		sets[i] = s
		total *= len(s.E)
		if total > MaxBuilt {
			return nil, 0, unknown("%s: too many combinations", what)
		}
	}
	return sets, total, nil
}

// ApplyNode computes the value of node e given its evaluated direct arguments.
func (ev *Evaluator) ApplyNode(e *Expr, a NodeArgs, env []V) (V, error) {
	if err := ev.tick(1); err != nil {
		return V{}, err
	}
	for _, x := range a.Args {
		if !WellFormed(x) {
			return V{}, unknown("argument %s is not a value TLC can normalise", x)
		}
	}
	for _, ks := range a.SubKeys {
		for _, x := range ks {
			if !WellFormed(x) {
				return V{}, unknown("argument %s is not a value TLC can normalise", x)
			}
		}
	}
	arg := func(i int) V { return a.Args[i] }
	switch e.Op {
	case "choose", "select":
		c, err := ev.Candidates(e, a, env)
		if err != nil {
			return V{}, err
		}
		best := c[0]
		if len(c) > 1 {
			ev.Free = true
		}
		if e.Op == "select" {
			return c[e.Idx], nil
		}
		for _, x := range c[1:] {
			if Cmp(x, best) < 0 {
				best = x
			}
		}
		return best, nil

	case "ModuleTRUE":
		return Bool(true), nil
	case "ModuleFALSE":
		return Bool(false), nil
	case "ModuleBOOLEAN":
		return MkSet([]V{Bool(false), Bool(true)}), nil
	case "ModuleZero":
		return Int(0), nil
	case "ModuledefaultInitValue":
		return Model(), nil
	case "ModuleAssert":
		c, err := asBool(arg(0), "Assert")
		if err != nil {
			return V{}, err
		}
		if !c {
			return V{}, errf("assert", "assertion failed: %s", arg(1))
		}
		return Bool(true), nil
	case "ModuleToString":
		if arg(0).K == KSeqSet {
			return V{}, unknown("ToString(Seq(S))")
		}
		if k := arg(0).K; k == KSet || k == KFn || k == KModel {
			ev.Free = true
		}
		return Str(arg(0).String()), nil
	case "ModuleEqualsSymbol", "ModuleNotEqualsSymbol":
		eq, err := Eq(arg(0), arg(1))
		if err != nil {
			return V{}, err
		}
		return Bool(eq == (e.Op == "ModuleEqualsSymbol")), nil
	case "ModuleLogicalNotSymbol":
		b, err := asBool(arg(0), "~")
		if err != nil {
			return V{}, err
		}
		return Bool(!b), nil
	case "ModuleEquivSymbol":
		l, err := asBool(arg(0), "<=>")
		if err != nil {
			return V{}, err
		}
		r, err := asBool(arg(1), "<=>")
		if err != nil {
			return V{}, err
		}
		return Bool(l == r), nil
	case "ModulePlusSymbol", "ModuleMinusSymbol", "ModuleAsteriskSymbol", "ModuleSuperscriptSymbol",
		"ModuleLessThanOrEqualSymbol", "ModuleGreaterThanOrEqualSymbol", "ModuleLessThanSymbol", "ModuleGreaterThanSymbol",
		"ModuleDotDotSymbol", "ModuleDivSymbol", "ModulePercentSymbol":
		x, err := asInt(arg(0), e.Op)
		if err != nil {
			return V{}, err
		}
		y, err := asInt(arg(1), e.Op)
		if err != nil {
			return V{}, err
		}
		return ev.arith(e.Op, x, y)
	case "ModuleNegationSymbol":
		x, err := asInt(arg(0), "-.")
		if err != nil {
			return V{}, err
		}
		return ranged(-x, fmt.Sprintf("-(%d)", x))

	case "ModuleInSymbol", "ModuleNotInSymbol":
		ok, err := Member(arg(0), arg(1))
		if err != nil {
			return V{}, err
		}
		return Bool(ok == (e.Op == "ModuleInSymbol")), nil
	case "ModuleIntersectSymbol", "ModuleUnionSymbol", "ModuleBackslashSymbol", "ModuleSubsetOrEqualSymbol":
		if e.Op == "ModuleUnionSymbol" && arg(0).K != KSet && arg(1).K == KSet && len(arg(1).E) == 0 {
			return V{}, unknown("x \\cup {}: TLC returns x without looking at it")
		}
		l, err := asSet(arg(0), e.Op)
		if err != nil {
			return V{}, err
		}
		if len(l.E) == 0 && arg(1).K != KSet {
			return V{}, unknown("%s: TLC may never look at the right operand when the left one is empty", e.Op)
		}
		r, err := asSet(arg(1), e.Op)
		if err != nil {
			return V{}, err
		}
		if err := ev.tick(len(l.E) + len(r.E)); err != nil {
			return V{}, err
		}
		switch crossComparable(l, r) {
		case CmpNo:
			return V{}, errf("compare", "%s of sets with incomparable elements: %s, %s", e.Op, l, r)
		case CmpMurky:
			return V{}, unknown("%s of sets with possibly incomparable elements: %s, %s", e.Op, l, r)
		}
		var out []V
		switch e.Op {
		case "ModuleUnionSymbol":
			return MkSet(append(append(out, l.E...), r.E...)), nil
		case "ModuleIntersectSymbol":
			for _, x := range l.E {
				if r.Has(x) {
					out = append(out, x)
				}
			}
			return MkSet(out), nil
		case "ModuleBackslashSymbol":
			for _, x := range l.E {
				if !r.Has(x) {
					out = append(out, x)
				}
			}
			return MkSet(out), nil
		}
		for _, x := range l.E {
			if !r.Has(x) {
				return Bool(false), nil
			}
		}
		return Bool(true), nil
	case "ModulePrefixSubsetSymbol":
		s, err := asSet(arg(0), "SUBSET")
		if err != nil {
			return V{}, err
		}
		if len(s.E) > MaxSubsetOf {
			return V{}, unknown("SUBSET of %d elements", len(s.E))
		}
		var out []V
		for m := 0; m < 1<<len(s.E); m++ {
			var sub []V
			for i, x := range s.E {
				if m&(1<<i) != 0 {
					sub = append(sub, x)
				}
			}
			out = append(out, V{K: KSet, E: sub})
		}
		if err := ev.tick(len(out)); err != nil {
			return V{}, err
		}
		return MkSet(out), nil
	case "ModulePrefixUnionSymbol":
		s, err := asSet(arg(0), "UNION")
		if err != nil {
			return V{}, err
		}
		var out []V
		for _, x := range s.E {
			xs, err := asSet(x, "UNION (element)")
			if err != nil {
				return V{}, err
			}
			if err := ev.tick(len(xs.E)); err != nil {
				return V{}, err
			}
			out = append(out, xs.E...)
		}
		return checkedSet(out, "UNION")
	case "ModuleIsFiniteSet":
		if _, err := asSet(arg(0), "IsFiniteSet"); err != nil {
			return V{}, err
		}
		return Bool(true), nil
	case "ModuleCardinality":
		s, err := asSet(arg(0), "Cardinality")
		if err != nil {
			return V{}, err
		}
		return Int(int64(len(s.E))), nil

	case "ModuleSeq":
		s, err := asSet(arg(0), "Seq")
		if err != nil {
			return V{}, err
		}
		return V{K: KSeqSet, E: s.E}, nil
	case "ModuleLen":
		if arg(0).K == KStr {
			return Int(int64(len(arg(0).S))), nil
		}
		s, err := asSeq(arg(0), "Len")
		if err != nil {
			return V{}, err
		}
		return Int(int64(len(s.R))), nil
	case "ModuleOSymbol":
		if arg(0).K == KStr && arg(1).K == KStr {
			return Str(arg(0).S + arg(1).S), nil
		}
		if arg(0).K == KStr || arg(1).K == KStr {
			return V{}, errf("type", "\\o of a string and a non-string")
		}
		l, err := asSeq(arg(0), "\\o")
		if err != nil {
			return V{}, err
		}
		r, err := asSeq(arg(1), "\\o")
		if err != nil {
			return V{}, err
		}
		return MkTuple(append(append([]V(nil), l.R...), r.R...)), nil
	case "ModuleAppend":
		if arg(0).K == KStr {
			return V{}, unknown("Append on a string")
		}
		l, err := asSeq(arg(0), "Append")
		if err != nil {
			return V{}, err
		}
		return MkTuple(append(append([]V(nil), l.R...), arg(1))), nil
	case "ModuleHead", "ModuleTail":
		if arg(0).K == KStr {
			return V{}, unknown("%s on a string", e.Op)
		}
		s, err := asSeq(arg(0), e.Op)
		if err != nil {
			return V{}, err
		}
		if len(s.R) == 0 {
			return V{}, errf("domain", "%s of the empty sequence", e.Op)
		}
		if e.Op == "ModuleHead" {
			return s.R[0], nil
		}
		return MkTuple(s.R[1:]), nil
	case "ModuleSubSeq":
		if arg(0).K == KStr {
			return V{}, unknown("SubSeq on a string")
		}
		s, err := asSeq(arg(0), "SubSeq")
		if err != nil {
			return V{}, err
		}
		m, err := asInt(arg(1), "SubSeq")
		if err != nil {
			return V{}, err
		}
		n, err := asInt(arg(2), "SubSeq")
		if err != nil {
			return V{}, err
		}
		if m > n {
			return MkTuple(nil), nil
		}
		if m < 1 || n > int64(len(s.R)) {
			return V{}, errf("domain", "SubSeq(%s, %d, %d) out of bounds", s, m, n)
		}
		return MkTuple(s.R[m-1 : n]), nil
	case "ModuleSelectSeq":
		return V{}, errf("type", "SelectSeq: second argument must be an operator")

	case "ModuleColonGreaterThanSymbol":
		return MkFn([]V{arg(0)}, []V{arg(1)}), nil
	case "ModuleDoubleAtSignSymbol":
		l, err := asFn(arg(0), "@@")
		if err != nil {
			return V{}, err
		}
		r, err := asFn(arg(1), "@@")
		if err != nil {
			return V{}, err
		}
		// left operand wins
		f := MkFn(append(append([]V(nil), r.D...), l.D...), append(append([]V(nil), r.R...), l.R...))
		switch Normalisable(f.D) {
		case CmpNo:
			return V{}, errf("compare", "@@: incomparable domain elements in %s", f)
		case CmpMurky:
			return V{}, unknown("@@: possibly incomparable domain elements in %s", f)
		}
		return f, nil
	case "ModuleDomainSymbol":
		f, err := asFn(arg(0), "DOMAIN")
		if err != nil {
			return V{}, err
		}
		return V{K: KSet, E: f.D}, nil

	case "forall", "exists":
		sets, _, err := ev.setsOf(a.Args, e.Op)
		if err != nil {
			return V{}, err
		}
		nT, nF := 0, 0
		var firstErr error
		err = ev.product(sets, env, func(env2 []V) error {
			r, err := ev.Eval(e.Body, env2)
			var b bool
			if err == nil {
				b, err = asBool(r, e.Op+" body")
			}
			if err != nil {
				if IsUnknown(err) {
					return err
				}
				if firstErr == nil {
					firstErr = err
				}
				return nil
			}
			if b {
				nT++
			} else {
				nF++
			}
			return nil
		})
		if err != nil {
			return V{}, err
		}
		decisive := nF
		if e.Op == "exists" {
			decisive = nT
		}
		if firstErr != nil {
			if decisive == 0 {
				return V{}, firstErr
			}
			return V{}, unknown("%s: body fails on some elements and decides on others; order-dependent in TLC", e.Op)
		}
		if e.Op == "forall" {
			return Bool(nF == 0), nil
		}
		return Bool(nT > 0), nil
	case "setref":
		s, err := asSet(arg(0), "{x \\in S : p}")
		if err != nil {
			return V{}, err
		}
		var out []V
		for _, x := range s.E {
			if err := ev.tick(1); err != nil {
				return V{}, err
			}
			r, err := ev.Eval(e.Body, append(env[:len(env):len(env)], x))
			if err != nil {
				return V{}, err
			}
			b, err := asBool(r, "set filter predicate")
			if err != nil {
				return V{}, err
			}
			if b {
				out = append(out, x)
			}
		}
		return V{K: KSet, E: out}, nil
	case "setcomp":
		sets, _, err := ev.setsOf(a.Args, "{e : x \\in S}")
		if err != nil {
			return V{}, err
		}
		var out []V
		err = ev.product(sets, env, func(env2 []V) error {
			r, err := ev.Eval(e.Body, env2)
			if err != nil {
				return err
			}
			out = append(out, r)
			return nil
		})
		if err != nil {
			return V{}, err
		}
		return checkedSet(out, "set comprehension")
	case "mkfn":
		if len(a.Args) == 0 {
			return V{}, unknown("function over no sets")
		}
		sets, _, err := ev.setsOf(a.Args, "[x \\in S |-> e]")
		if err != nil {
			return V{}, err
		}
		var ks, vs []V
		base := len(env)
		err = ev.product(sets, env, func(env2 []V) error {
			r, err := ev.Eval(e.Body, env2)
			if err != nil {
				return err
			}
			if len(sets) == 1 {
				ks = append(ks, env2[base])
			} else {
				ks = append(ks, MkTuple(append([]V(nil), env2[base:]...)))
			}
			vs = append(vs, r)
			return nil
		})
		if err != nil {
			return V{}, err
		}
		return MkFn(ks, vs), nil
	case "cross":
		sets, _, err := ev.setsOf(a.Args, "\\X")
		if err != nil {
			return V{}, err
		}
		var out []V
		err = ev.product(sets, nil, func(env2 []V) error {
			out = append(out, MkTuple(append([]V(nil), env2...)))
			return nil
		})
		if err != nil {
			return V{}, err
		}
		return MkSet(out), nil
	case "recset", "fnset":
		var keys []V
		var sets []V
		if e.Op == "recset" {
			for i, n := range e.Names {
				s, err := asSet(arg(i), "record set")
				if err != nil {
					return V{}, err
				}
				keys = append(keys, Str(n))
				sets = append(sets, s)
			}
		} else {
			from, err := asSet(arg(0), "[S -> T]")
			if err != nil {
				return V{}, err
			}
			to, err := asSet(arg(1), "[S -> T]")
			if err != nil {
				return V{}, err
			}
			for _, k := range from.E {
				keys = append(keys, k)
				sets = append(sets, to)
			}
		}
		total := 1
		for _, s := range sets {
			total *= len(s.E)
			if total > MaxBuilt/4 {
				return V{}, unknown("%s too large", e.Op)
			}
		}
		var out []V
		err := ev.product(sets, nil, func(env2 []V) error {
			out = append(out, MkFn(keys, append([]V(nil), env2...)))
			return nil
		})
		if err != nil {
			return V{}, err
		}
		return MkSet(out), nil
	case "mkrec":
		ks := make([]V, len(e.Names))
		for i, n := range e.Names {
			ks[i] = Str(n)
		}
		return MkFn(ks, a.Args), nil
	case "mkset":
		return checkedSet(a.Args, "set enumeration")
	case "mktup":
		return MkTuple(a.Args), nil
	case "apply":
		f, err := asFn(arg(0), "function application")
		if err != nil {
			return V{}, err
		}
		if r, ok := f.Lookup(arg(1)); ok {
			return r, nil
		}
		return V{}, errf("domain", "%s applied to %s outside its domain", f, arg(1))
	case "except":
		cur := arg(0)
		for i, s := range e.Subs {
			var err error
			cur, err = ev.except(cur, a.SubKeys[i], &s.Val, env)
			if err != nil {
				return V{}, err
			}
		}
		return cur, nil
	}
	return V{}, unknown("operator %s not modelled", e.Op)
}

func (ev *Evaluator) except(src V, keys []V, val *Expr, env []V) (V, error) {
	if len(keys) == 0 {
		return ev.Eval(val, append(env[:len(env):len(env)], src))
	}
	f, err := asFn(src, "EXCEPT")
	if err != nil {
		return V{}, err
	}
	if f.IsSeq() && keys[0].K != KInt {
		return V{}, unknown("EXCEPT with non-integer key %s on the sequence %s", keys[0], f)
	}
	for _, d := range f.D {
		if !Compat(d, keys[0]) {
			return V{}, unknown("EXCEPT key %s incomparable with the domain of %s", keys[0], f)
		}
	}
	old, ok := f.Lookup(keys[0])
	if !ok {
		ev.ExceptOutside = true
		return src, nil
	}
	nv, err := ev.except(old, keys[1:], val, env)
	if err != nil {
		return V{}, err
	}
	ks := append(append([]V(nil), f.D...), keys[0])
	vs := append(append([]V(nil), f.R...), nv)
	return MkFn(ks, vs), nil
}

func (ev *Evaluator) arith(op string, x, y int64) (V, error) {
	switch op {
	case "ModulePlusSymbol":
		return ranged(x+y, fmt.Sprintf("%d+%d", x, y))
	case "ModuleMinusSymbol":
		return ranged(x-y, fmt.Sprintf("%d-%d", x, y))
	case "ModuleAsteriskSymbol":
		return ranged(x*y, fmt.Sprintf("%d*%d", x, y))
	case "ModuleSuperscriptSymbol":
		if y < 0 {
			return V{}, errf("undefined", "%d^%d: the exponent must be a natural number", x, y)
		}
		if y == 0 {
			if x == 0 {
				return V{}, errf("undefined", "0^0 is undefined")
			}
			return Int(1), nil
		}
		res := x
		for i := int64(1); i < y; i++ {
			if res == 0 || res == 1 {
				break
			}
			if res == -1 {
				if (y-i)%2 == 1 {
					res = -res
				}
				break
			}
			res *= x
			if res > MaxInt || res < MinInt {
				return V{}, errf("overflow", "overflow when computing %d^%d", x, y)
			}
			if err := ev.tick(1); err != nil {
				return V{}, err
			}
		}
		return Int(res), nil
	case "ModuleLessThanOrEqualSymbol":
		return Bool(x <= y), nil
	case "ModuleGreaterThanOrEqualSymbol":
		return Bool(x >= y), nil
	case "ModuleLessThanSymbol":
		return Bool(x < y), nil
	case "ModuleGreaterThanSymbol":
		return Bool(x > y), nil
	case "ModuleDotDotSymbol":
		if x > y {
			return V{K: KSet}, nil
		}
		if y-x+1 > MaxRange {
			return V{}, unknown("interval %d..%d too large to enumerate", x, y)
		}
		out := make([]V, 0, y-x+1)
		for i := x; i <= y; i++ {
			out = append(out, Int(i))
		}
		if err := ev.tick(len(out)); err != nil {
			return V{}, err
		}
		return V{K: KSet, E: out}, nil
	case "ModuleDivSymbol":
		if y == 0 {
			return V{}, errf("divzero", "%d \\div 0", x)
		}
		if x == MinInt && y == -1 {
			return V{}, unknown("MinInt \\div -1: TLC wraps where TLA+ gives 2^31")
		}
		q := x / y
		if (x%y != 0) && ((x < 0) != (y < 0)) {
			q--
		}
		return Int(q), nil
	case "ModulePercentSymbol":
		if y <= 0 {
			return V{}, errf("divzero", "%d %% %d: the modulus must be positive", x, y)
		}
		r := x % y
		if r < 0 {
			r += y
		}
		return Int(r), nil
	}
	return V{}, unknown("arith %s", op)
}

package refval

import (
	"github.com/DistCompiler/pgo/distsys/tla"
)

// This file is the only place where refval touches the package under test, and it only uses the
// public observers of tla.Value (Is*/As* and the iterators of the returned immutable collections) and
// the public constructors. No semantics is borrowed.

// LitFromTLA observes a runtime value, preserving its representation (tuple vs function) and its
// iteration order.
func LitFromTLA(v tla.Value) Lit {
	switch {
	case v.IsBool():
		return LB(v.AsBool())
	case v.IsNumber():
		return LI(int64(v.AsNumber()))
	case v.IsString():
		return LS(v.AsString())
	case v.IsSet():
		l := Lit{T: "set"}
		it := v.AsSet().Iterator()
		for !it.Done() {
			k, _, _ := it.Next()
			l.Xs = append(l.Xs, LitFromTLA(k))
		}
		return l
	case v.IsTuple():
		l := Lit{T: "tup"}
		it := v.AsTuple().Iterator()
		for !it.Done() {
			_, e := it.Next()
			l.Xs = append(l.Xs, LitFromTLA(e))
		}
		return l
	case v.IsFunction():
		l := Lit{T: "fn"}
		it := v.AsFunction().Iterator()
		for !it.Done() {
			k, w, _ := it.Next()
			l.Xs = append(l.Xs, LitFromTLA(k))
			l.Ys = append(l.Ys, LitFromTLA(w))
		}
		return l
	}
	return LDefault()
}

// FromTLA converts a runtime value to the canonical form.
func FromTLA(v tla.Value) V { return LitFromTLA(v).V() }

// ToTLA builds the runtime value a literal describes, with the public constructors, inserting
// elements in the literal's order.
func ToTLA(l Lit) tla.Value {
	switch l.T {
	case "b":
		return tla.MakeBool(l.B)
	case "i":
		return tla.MakeNumber(int32(l.I))
	case "s":
		return tla.MakeString(l.S)
	case "dflt":
		return tla.Value{}
	case "set":
		xs := make([]tla.Value, len(l.Xs))
		for i, x := range l.Xs {
			xs[i] = ToTLA(x)
		}
		return tla.MakeSet(xs...)
	case "tup":
		xs := make([]tla.Value, len(l.Xs))
		for i, x := range l.Xs {
			xs[i] = ToTLA(x)
		}
		return tla.MakeTuple(xs...)
	case "fn":
		fs := make([]tla.RecordField, len(l.Xs))
		for i := range l.Xs {
			fs[i] = tla.RecordField{Key: ToTLA(l.Xs[i]), Value: ToTLA(l.Ys[i])}
		}
		return tla.MakeRecord(fs)
	}
	panic("bad literal tag " + l.T)
}

// KindSig is the argument-kind signature element of a literal: top-level kind, sign class for
// integers, emptiness for collections.
func KindSig(l Lit) string {
	switch l.T {
	case "b":
		return "bool"
	case "i":
		switch {
		case l.I < 0:
			return "int-"
		case l.I == 0:
			return "int0"
		}
		return "int+"
	case "s":
		return "str"
	case "dflt":
		return "dflt"
	case "set", "tup", "fn":
		if len(l.Xs) == 0 {
			return l.T + "0"
		}
		return l.T
	}
	return "?"
}

// HasSeqFn reports whether the literal contains, anywhere, a function-represented value whose domain
// is 1..n (a sequence in TLA+, but not a tuple for the runtime), or an empty function/tuple.
func HasSeqFn(l Lit) bool {
	if l.T == "fn" && l.V().IsSeq() {
		return true
	}
	for _, x := range l.Xs {
		if HasSeqFn(x) {
			return true
		}
	}
	for _, y := range l.Ys {
		if HasSeqFn(y) {
			return true
		}
	}
	return false
}

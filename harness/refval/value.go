// Package refval is an independent reference implementation of the TLA+ value universe and of the
// operators of the PGo runtime library, encoding the semantics of TLA+ as implemented by TLC.
//
// It shares no code with github.com/DistCompiler/pgo/distsys/tla. Integers are int64 with explicit
// 32-bit range checks (TLC's integers are Java ints and TLC reports overflow), sets and functions are
// sorted slices. Sequences/tuples and records ARE functions (domain 1..n, resp. a set of strings), as
// TLA+ defines them.
package refval

import (
	"fmt"
	"sort"
	"strconv"
	"strings"
)

type Kind int

const (
	KBool Kind = iota
	KInt
	KStr
	KSet
	KFn
	KModel  // a TLC model value (defaultInitValue)
	KSeqSet // the infinite set Seq(S); only membership is defined on it
)

func (k Kind) String() string {
	return [...]string{"bool", "int", "str", "set", "fn", "model", "seqset"}[k]
}

// V is a canonical value. Sets: E sorted by Cmp, no duplicates. Functions: D sorted by Cmp, R parallel.
type V struct {
	K Kind
	B bool
	I int64
	S string
	E []V // set elements; for KSeqSet: the elements of the base set
	D []V // function domain
	R []V // function range, parallel to D
}

const (
	MaxInt = int64(2147483647)
	MinInt = int64(-2147483648)
)

func Bool(b bool) V  { return V{K: KBool, B: b} }
func Int(i int64) V  { return V{K: KInt, I: i} }
func Str(s string) V { return V{K: KStr, S: s} }
func Model() V       { return V{K: KModel, S: "defaultInitValue"} }

// Cmp is a total structural order on canonical values, used only to build canonical forms (it is NOT
// TLC's comparison: it never fails). Kind first, then content.
func Cmp(a, b V) int {
	if a.K != b.K {
		if a.K < b.K {
			return -1
		}
		return 1
	}
	switch a.K {
	case KBool:
		if a.B == b.B {
			return 0
		}
		if !a.B {
			return -1
		}
		return 1
	case KInt:
		switch {
		case a.I < b.I:
			return -1
		case a.I > b.I:
			return 1
		}
		return 0
	case KStr, KModel:
		return strings.Compare(a.S, b.S)
	case KSet, KSeqSet:
		if len(a.E) != len(b.E) {
			if len(a.E) < len(b.E) {
				return -1
			}
			return 1
		}
		for i := range a.E {
			if c := Cmp(a.E[i], b.E[i]); c != 0 {
				return c
			}
		}
		return 0
	case KFn:
		if len(a.D) != len(b.D) {
			if len(a.D) < len(b.D) {
				return -1
			}
			return 1
		}
		for i := range a.D {
			if c := Cmp(a.D[i], b.D[i]); c != 0 {
				return c
			}
		}
		for i := range a.R {
			if c := Cmp(a.R[i], b.R[i]); c != 0 {
				return c
			}
		}
		return 0
	}
	return 0
}

// Same reports structural identity of canonical forms.
func Same(a, b V) bool { return Cmp(a, b) == 0 }

// MkSet builds a canonical set from arbitrary elements (sorted, duplicates removed).
func MkSet(elems []V) V {
	e := append([]V(nil), elems...)
	sort.Slice(e, func(i, j int) bool { return Cmp(e[i], e[j]) < 0 })
	out := e[:0]
	for i, x := range e {
		if i == 0 || Cmp(out[len(out)-1], x) != 0 {
			out = append(out, x)
		}
	}
	return V{K: KSet, E: out}
}

// MkFn builds a canonical function from key/value pairs; later pairs overwrite earlier ones.
func MkFn(keys, vals []V) V {
	type kv struct {
		k, v V
		n    int
	}
	ps := make([]kv, len(keys))
	for i := range keys {
		ps[i] = kv{keys[i], vals[i], i}
	}
	sort.SliceStable(ps, func(i, j int) bool {
		c := Cmp(ps[i].k, ps[j].k)
		if c != 0 {
			return c < 0
		}
		return ps[i].n < ps[j].n
	})
	f := V{K: KFn}
	for _, p := range ps {
		if n := len(f.D); n > 0 && Cmp(f.D[n-1], p.k) == 0 {
			f.R[n-1] = p.v
			continue
		}
		f.D = append(f.D, p.k)
		f.R = append(f.R, p.v)
	}
	return f
}

// MkTuple builds the function with domain 1..n.
func MkTuple(elems []V) V {
	f := V{K: KFn}
	for i, e := range elems {
		f.D = append(f.D, Int(int64(i+1)))
		f.R = append(f.R, e)
	}
	return f
}

// IsSeq reports whether f is a function with domain 1..n (n >= 0).
func (v V) IsSeq() bool {
	if v.K != KFn {
		return false
	}
	for i, d := range v.D {
		if d.K != KInt || d.I != int64(i+1) {
			return false
		}
	}
	return true
}

// IsRec reports whether f is a non-empty function whose domain consists of strings.
func (v V) IsRec() bool {
	if v.K != KFn || len(v.D) == 0 {
		return false
	}
	for _, d := range v.D {
		if d.K != KStr {
			return false
		}
	}
	return true
}

func (v V) find(set []V, x V) int {
	i := sort.Search(len(set), func(i int) bool { return Cmp(set[i], x) >= 0 })
	if i < len(set) && Cmp(set[i], x) == 0 {
		return i
	}
	return -1
}

// Has reports structural membership in a canonical finite set.
func (v V) Has(x V) bool { return v.find(v.E, x) >= 0 }

// Lookup finds f[x] structurally.
func (v V) Lookup(x V) (V, bool) {
	if i := v.find(v.D, x); i >= 0 {
		return v.R[i], true
	}
	return V{}, false
}

// Size is the number of nodes of the value (used for bounds and shrinking).
func (v V) Size() int {
	n := 1
	for _, e := range v.E {
		n += e.Size()
	}
	for i := range v.D {
		n += v.D[i].Size() + v.R[i].Size()
	}
	return n
}

func intText(i int64) string {
	if i == MinInt {
		return "(-2147483647 - 1)"
	}
	if i < 0 {
		return "(" + strconv.FormatInt(i, 10) + ")"
	}
	return strconv.FormatInt(i, 10)
}

func strText(s string) string {
	var sb strings.Builder
	sb.WriteByte('"')
	for _, c := range s {
		switch c {
		case '"':
			sb.WriteString("\\\"")
		case '\\':
			sb.WriteString("\\\\")
		default:
			sb.WriteRune(c)
		}
	}
	sb.WriteByte('"')
	return sb.String()
}

// String renders the canonical value the way TLC prints values (sequences as <<..>>, records as
// [a |-> ..], other functions as (k :> v @@ ..), intervals are printed extensionally).
func (v V) String() string {
	switch v.K {
	case KBool:
		if v.B {
			return "TRUE"
		}
		return "FALSE"
	case KInt:
		return strconv.FormatInt(v.I, 10)
	case KStr:
		return strText(v.S)
	case KModel:
		return v.S
	case KSet:
		parts := make([]string, len(v.E))
		for i, e := range v.E {
			parts[i] = e.String()
		}
		return "{" + strings.Join(parts, ", ") + "}"
	case KSeqSet:
		return "Seq(" + V{K: KSet, E: v.E}.String() + ")"
	case KFn:
		if v.IsSeq() {
			parts := make([]string, len(v.R))
			for i, e := range v.R {
				parts[i] = e.String()
			}
			return "<<" + strings.Join(parts, ", ") + ">>"
		}
		if v.IsRec() {
			parts := make([]string, len(v.D))
			for i := range v.D {
				parts[i] = v.D[i].S + " |-> " + v.R[i].String()
			}
			return "[" + strings.Join(parts, ", ") + "]"
		}
		parts := make([]string, len(v.D))
		for i := range v.D {
			parts[i] = v.D[i].String() + " :> " + v.R[i].String()
		}
		return "(" + strings.Join(parts, " @@ ") + ")"
	}
	return "?"
}

// ---------------------------------------------------------------------------------------------
// TLC comparability

// Compat reports whether TLC can compare a and b (equality / ordering inside a set) without raising
// "Attempted to compare/check equality of ..." anywhere. Model values compare with everything.
// The judgement is conservative for nested shapes: it demands that every pair of elements that TLC
// *might* compare is comparable.
func Compat(a, b V) bool {
	if a.K == KModel || b.K == KModel {
		return true
	}
	if a.K != b.K {
		return false
	}
	switch a.K {
	case KSet:
		for _, x := range a.E {
			for _, y := range b.E {
				if !Compat(x, y) {
					return false
				}
			}
		}
	case KFn:
		for _, x := range a.D {
			for _, y := range b.D {
				if !Compat(x, y) {
					return false
				}
			}
		}
		// values: TLC compares values position by position; be conservative only on common keys and
		// on equal positions.
		for i, k := range a.D {
			if w, ok := b.Lookup(k); ok && !Compat(a.R[i], w) {
				return false
			}
			if i < len(b.R) && !Compat(a.R[i], b.R[i]) {
				return false
			}
		}
	case KSeqSet:
		return false
	}
	return true
}

// Comparability of two values in TLC: CmpYes (never an error), CmpNo (always "attempted to compare /
// check equality of X with non-X": different top-level kinds), CmpMurky (same kind, incomparable parts:
// whether TLC raises depends on sizes and on the order in which it compares).
const (
	CmpYes = iota
	CmpNo
	CmpMurky
)

func Comparable(a, b V) int {
	if a.K == KModel || b.K == KModel {
		return CmpYes
	}
	if a.K != b.K {
		return CmpNo
	}
	if Compat(a, b) {
		return CmpYes
	}
	return CmpMurky
}

// Normalisable classifies a collection of would-be set elements / function keys.
func Normalisable(elems []V) int {
	st := CmpYes
	for i, x := range elems {
		for _, y := range elems[i+1:] {
			switch Comparable(x, y) {
			case CmpNo:
				return CmpNo
			case CmpMurky:
				st = CmpMurky
			}
		}
	}
	return st
}

// WellFormed reports whether TLC can normalise v: all elements of every set, and all keys of every
// function, are pairwise comparable.
func WellFormed(v V) bool {
	switch v.K {
	case KSet, KSeqSet:
		for i, x := range v.E {
			if !WellFormed(x) {
				return false
			}
			for _, y := range v.E[i+1:] {
				if !Compat(x, y) {
					return false
				}
			}
		}
	case KFn:
		for i, x := range v.D {
			if !WellFormed(x) || !WellFormed(v.R[i]) {
				return false
			}
			for _, y := range v.D[i+1:] {
				if !Compat(x, y) {
					return false
				}
			}
		}
	}
	return true
}

// ---------------------------------------------------------------------------------------------
// Errors

// EvalError is a TLC-level evaluation error. Class is one of: type, compare, domain, divzero,
// overflow, undefined (0^0, negative exponent), assert, choose, enum (not enumerable).
type EvalError struct {
	Class string
	Msg   string
}

func (e *EvalError) Error() string { return "TLC error (" + e.Class + "): " + e.Msg }

func errf(class, format string, a ...any) error {
	return &EvalError{Class: class, Msg: fmt.Sprintf(format, a...)}
}

// UnknownError says the reference declines to predict TLC's behaviour on this input (implementation-
// dependent evaluation order, unrepresentable argument, result too large). Such cases are skipped.
type UnknownError struct{ Why string }

func (e *UnknownError) Error() string { return "reference undefined: " + e.Why }

func unknown(format string, a ...any) error { return &UnknownError{Why: fmt.Sprintf(format, a...)} }

// IsUnknown / ErrClass classify an error returned by the evaluator.
func IsUnknown(err error) bool { _, ok := err.(*UnknownError); return ok }
func ErrClass(err error) string {
	if e, ok := err.(*EvalError); ok {
		return e.Class
	}
	return ""
}

// Eq is TLA+ equality as TLC evaluates it: a Boolean, a comparison error, or unknown where TLC's
// answer depends on its evaluation order.
func Eq(a, b V) (bool, error) {
	if a.K == KSeqSet || b.K == KSeqSet {
		return false, unknown("equality on Seq(S)")
	}
	if a.K == KModel || b.K == KModel {
		return a.K == b.K && a.S == b.S, nil
	}
	if a.K != b.K {
		return false, errf("compare", "attempted to check equality of %s %s with %s %s", a.K, a, b.K, b)
	}
	switch a.K {
	case KBool:
		return a.B == b.B, nil
	case KInt:
		return a.I == b.I, nil
	case KStr:
		return a.S == b.S, nil
	case KSet:
		if Compat(a, b) {
			return Same(a, b), nil
		}
		if len(a.E) == 1 && len(b.E) == 1 {
			return Eq(a.E[0], b.E[0])
		}
		return false, unknown("sets with incomparable elements: %s vs %s", a, b)
	case KFn:
		if Compat(a, b) {
			return Same(a, b), nil
		}
		// comparable domains, identical domains: pointwise
		dom := func(f V) V { return V{K: KSet, E: f.D} }
		if Compat(dom(a), dom(b)) && Same(dom(a), dom(b)) {
			nFalse, nErr := 0, 0
			var firstErr error
			for i := range a.R {
				ok, err := Eq(a.R[i], b.R[i])
				if err != nil {
					if IsUnknown(err) {
						return false, err
					}
					nErr++
					if firstErr == nil {
						firstErr = err
					}
				} else if !ok {
					nFalse++
				}
			}
			if nErr > 0 && nFalse == 0 {
				return false, firstErr
			}
			if nErr == 0 {
				return nFalse == 0, nil
			}
		}
		return false, unknown("functions with incomparable parts: %s vs %s", a, b)
	}
	return false, unknown("eq")
}

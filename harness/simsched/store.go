// Package simsched runs the repository's real generated archetypes one attempt at a time over
// harness resources that carry the specification's global variables and implement its mapping
// macros. Every archetype instance is a real distsys.MPCalContext in its own goroutine, gated by a
// custom FairnessCounter; between attempts the global state is exact.
package simsched

import (
	"fmt"
	"sort"

	"github.com/DistCompiler/pgo/distsys"
	"github.com/DistCompiler/pgo/distsys/tla"
)

var ErrAbort = distsys.ErrCriticalSectionAborted

func N(i int) tla.Value            { return tla.MakeNumber(int32(i)) }
func S(s string) tla.Value         { return tla.MakeString(s) }
func B(b bool) tla.Value           { return tla.MakeBool(b) }
func Tup(v ...tla.Value) tla.Value { return tla.MakeTuple(v...) }
func Set(v ...tla.Value) tla.Value { return tla.MakeSet(v...) }

// Rec builds a record from alternating string keys and values.
func Rec(kv ...interface{}) tla.Value {
	var fs []tla.RecordField
	for i := 0; i < len(kv); i += 2 {
		fs = append(fs, tla.RecordField{Key: S(kv[i].(string)), Value: kv[i+1].(tla.Value)})
	}
	return tla.MakeRecord(fs)
}

// Fld reads a record field.
func Fld(r tla.Value, k string) tla.Value { return r.ApplyFunction(S(k)) }

// HasFld reports whether the record has the field.
func HasFld(r tla.Value, k string) bool {
	_, ok := r.AsFunction().Get(S(k))
	return ok
}

// Fn builds [x \in dom |-> f(x)].
func Fn(dom tla.Value, f func(tla.Value) tla.Value) tla.Value {
	return tla.MakeFunction([]tla.Value{dom}, func(a []tla.Value) tla.Value { return f(a[0]) })
}

// K is the constant function helper for Fn.
func K(v tla.Value) func(tla.Value) tla.Value { return func(tla.Value) tla.Value { return v } }

// Except returns [f EXCEPT ![k1]...[kn] = v].
func Except(f tla.Value, v tla.Value, keys ...tla.Value) tla.Value {
	return tla.FunctionSubstitution(f, []tla.FunctionSubstitutionRecord{{Keys: keys, Value: func(tla.Value) tla.Value { return v }}})
}

// Elems lists a set's elements in a canonical (printed-form) order.
func Elems(s tla.Value) []tla.Value {
	var es []tla.Value
	it := s.AsSet().Iterator()
	for !it.Done() {
		k, _, _ := it.Next()
		es = append(es, k)
	}
	sort.Slice(es, func(i, j int) bool { return Less(es[i], es[j]) })
	return es
}

// Less orders values: numbers numerically, otherwise by printed form.
func Less(a, b tla.Value) bool {
	if a.IsNumber() && b.IsNumber() {
		return a.AsNumber() < b.AsNumber()
	}
	return a.String() < b.String()
}

// FnPairs lists a function's (key, value) pairs ordered by key.
func FnPairs(f tla.Value) (ks, vs []tla.Value) {
	type kv struct{ k, v tla.Value }
	var ps []kv
	it := f.AsFunction().Iterator()
	for !it.Done() {
		k, v, _ := it.Next()
		ps = append(ps, kv{k, v})
	}
	sort.Slice(ps, func(i, j int) bool { return Less(ps[i].k, ps[j].k) })
	for _, p := range ps {
		ks = append(ks, p.k)
		vs = append(vs, p.v)
	}
	return
}

// TupleElems lists a tuple's elements.
func TupleElems(t tla.Value) []tla.Value {
	var es []tla.Value
	it := t.AsTuple().Iterator()
	for !it.Done() {
		_, v := it.Next()
		es = append(es, v)
	}
	return es
}

// ---- bags as functions element -> count (as the specs' Bags module represents them) ----

func BagCard(b tla.Value) int {
	c := 0
	it := b.AsFunction().Iterator()
	for !it.Done() {
		_, v, _ := it.Next()
		c += int(v.AsNumber())
	}
	return c
}

func BagElems(b tla.Value) []tla.Value {
	ks, _ := FnPairs(b)
	return ks
}

func BagAdd(b, e tla.Value) tla.Value {
	f := b.AsFunction()
	if c, ok := f.Get(e); ok {
		return tla.MakeRecordFromMap(f.Set(e, tla.MakeNumber(c.AsNumber()+1)))
	}
	return tla.MakeRecordFromMap(f.Set(e, N(1)))
}

func BagDel(b, e tla.Value) tla.Value {
	f := b.AsFunction()
	c, ok := f.Get(e)
	if !ok {
		panic(fmt.Sprintf("BagDel: %v not in %v", e, b))
	}
	if c.AsNumber() == 1 {
		return tla.MakeRecordFromMap(f.Delete(e))
	}
	return tla.MakeRecordFromMap(f.Set(e, tla.MakeNumber(c.AsNumber()-1)))
}

var EmptyBag = tla.MakeRecord(nil)

// Aux is auxiliary harness state that must roll back / commit together with the cells
// (e.g. per-link arrival order shadowing a bag network).
type Aux interface {
	AuxCommit()
	AuxAbort()
}

// Store holds the specification's global variables. All resources of all processes share one Store;
// only one attempt runs at a time, so Cur is the running attempt's view and Committed the exact
// global state between attempts.
type Store struct {
	Cur, Committed map[string]tla.Value
	Aux            []Aux
	dirty          bool
	changed        []string // variables assigned by the attempt in flight
	// cells ("var" or "var|firstIndex") accessed / written by the attempt in flight (scheduler bookkeeping)
	acc, wr map[string]bool
}

func (s *Store) resetAccess() {
	s.acc = map[string]bool{} // handed over to a parked process, so not reused
	if s.wr == nil {
		s.wr = map[string]bool{}
	} else {
		clear(s.wr)
	}
}

func cellKey(v string, path []tla.Value) string {
	if len(path) == 0 {
		return v
	}
	return v + "|" + path[0].String()
}

func NewStore() *Store {
	return &Store{Cur: map[string]tla.Value{}, Committed: map[string]tla.Value{}}
}

func cpMap(m map[string]tla.Value) map[string]tla.Value {
	r := make(map[string]tla.Value, len(m))
	for k, v := range m {
		r[k] = v
	}
	return r
}

// Init sets a variable's initial value (before the run starts).
func (s *Store) Init(name string, v tla.Value) {
	s.Cur[name] = v
	s.Committed[name] = v
}

func (s *Store) abort() {
	if s.dirty {
		for _, k := range s.changed {
			s.Cur[k] = s.Committed[k]
		}
		s.changed = s.changed[:0]
		s.dirty = false
	}
	for _, a := range s.Aux {
		a.AuxAbort()
	}
}

func (s *Store) commit() {
	if s.dirty {
		for _, k := range s.changed {
			s.Committed[k] = s.Cur[k]
		}
		s.changed = s.changed[:0]
		s.dirty = false
	}
	for _, a := range s.Aux {
		a.AuxCommit()
	}
}

// Get returns the committed value of a variable.
func (s *Store) Get(name string) tla.Value { return s.Committed[name] }

// Names lists the variables in sorted order.
func (s *Store) Names() []string {
	var ns []string
	for k := range s.Committed {
		ns = append(ns, k)
	}
	sort.Strings(ns)
	return ns
}

// RD implements the read half of a mapping macro: given the cell's value it returns the cell's new
// value and the value yielded to the archetype (or an error: ErrAbort = await false).
type RD func(iface distsys.ArchetypeInterface, path []tla.Value, cell tla.Value) (newCell, yield tla.Value, err error)

// WR implements the write half of a mapping macro.
type WR func(iface distsys.ArchetypeInterface, path []tla.Value, cell, val tla.Value) (newCell tla.Value, err error)

func PlainR(_ distsys.ArchetypeInterface, _ []tla.Value, c tla.Value) (tla.Value, tla.Value, error) {
	return c, c, nil
}
func PlainW(_ distsys.ArchetypeInterface, _ []tla.Value, _ tla.Value, v tla.Value) (tla.Value, error) {
	return v, nil
}

// NoW rejects writes (mapping macros whose write body is `assert FALSE`).
func NoW(_ distsys.ArchetypeInterface, _ []tla.Value, c, _ tla.Value) (tla.Value, error) {
	return c, fmt.Errorf("%w: write not allowed by mapping macro", distsys.ErrAssertionFailed)
}

// NoR rejects reads.
func NoR(_ distsys.ArchetypeInterface, _ []tla.Value, c tla.Value) (tla.Value, tla.Value, error) {
	return c, c, fmt.Errorf("%w: read not allowed by mapping macro", distsys.ErrAssertionFailed)
}

// MRes is a resource over one variable of the Store, with Depth levels of indexing ([_] mappings)
// and the mapping macro given by Read/Write.
type MRes struct {
	St    *Store
	Var   string
	Depth int // number of Index calls expected before ReadValue/WriteValue (0 = plain variable)
	Read  RD
	Write WR
	path  []tla.Value
}

var _ distsys.ArchetypeResource = &MRes{}

// M builds a mapped resource.
func M(st *Store, v string, depth int, r RD, w WR) *MRes {
	return &MRes{St: st, Var: v, Depth: depth, Read: r, Write: w}
}

func (r *MRes) Abort(distsys.ArchetypeInterface) chan struct{}  { r.St.abort(); return nil }
func (r *MRes) PreCommit(distsys.ArchetypeInterface) chan error { return nil }
func (r *MRes) Commit(distsys.ArchetypeInterface) chan struct{} { r.St.commit(); return nil }
func (r *MRes) Close() error                                    { return nil }

func (r *MRes) Index(_ distsys.ArchetypeInterface, i tla.Value) (distsys.ArchetypeResource, error) {
	if len(r.path) >= r.Depth {
		panic(fmt.Sprintf("simsched: too many indices on %s", r.Var))
	}
	c := *r
	c.path = append(append([]tla.Value{}, r.path...), i)
	return &c, nil
}

func (r *MRes) cell() tla.Value {
	v := r.St.Cur[r.Var]
	for _, i := range r.path {
		v = v.ApplyFunction(i)
	}
	return v
}

func (r *MRes) setCell(c tla.Value) {
	r.St.dirty = true
	if r.St.wr != nil {
		r.St.wr[cellKey(r.Var, r.path)] = true
	}
	r.St.changed = append(r.St.changed, r.Var)
	if len(r.path) == 0 {
		r.St.Cur[r.Var] = c
		return
	}
	r.St.Cur[r.Var] = Except(r.St.Cur[r.Var], c, r.path...)
}

func (r *MRes) ReadValue(iface distsys.ArchetypeInterface) (tla.Value, error) {
	if len(r.path) != r.Depth {
		panic(fmt.Sprintf("simsched: read of %s with %d of %d indices", r.Var, len(r.path), r.Depth))
	}
	r.St.dirty = true // the attempt touched the store: abort must restore even if only aux state changed
	if r.St.acc != nil {
		r.St.acc[cellKey(r.Var, r.path)] = true
	}
	nc, y, err := r.Read(iface, r.path, r.cell())
	if err != nil {
		return tla.Value{}, err
	}
	r.setCell(nc)
	return y, nil
}

func (r *MRes) WriteValue(iface distsys.ArchetypeInterface, v tla.Value) error {
	if len(r.path) != r.Depth {
		panic(fmt.Sprintf("simsched: write of %s with %d of %d indices", r.Var, len(r.path), r.Depth))
	}
	if r.St.acc != nil {
		r.St.acc[cellKey(r.Var, r.path)] = true
	}
	nc, err := r.Write(iface, r.path, r.cell(), v.StripVClock())
	if err != nil {
		return err
	}
	r.setCell(nc)
	return nil
}

// Path returns the indices applied so far (for mapping macros that need them).
func (r *MRes) Path() []tla.Value { return r.path }

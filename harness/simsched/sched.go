package simsched

import (
	"fmt"
	"math/rand"
	"sort"
	"strings"

	"github.com/DistCompiler/pgo/distsys"
	"github.com/DistCompiler/pgo/distsys/tla"
	"github.com/DistCompiler/pgo/distsys/trace"
)

type quitSentinel struct{}

type msg struct {
	id       int
	finished bool
	err      error
}

// Proc is one archetype instance.
type Proc struct {
	ID     int
	Self   tla.Value
	Arch   distsys.MPCalArchetype
	Locals map[string]string // Go local name (without "Arch.") -> TLA+ variable name after PlusCal renaming
	Group  string            // free-form tag used by scheduling policies (e.g. "srv2")
	Ctx    *distsys.MPCalContext
	// LabelName maps a Go label ("Arch.lbl") to the pc string of the TLA+ translation; nil = strip the prefix.
	LabelName func(goLabel string) string

	grant   chan bool
	atGate  bool
	hadEvt  bool
	lastAb  bool
	elems   []trace.Element
	Done    bool
	Err     error
	Parked  bool
	waitOn  map[string]bool // cells the last aborted attempt accessed (nil = wake on any commit)
	chose   bool            // the attempt in flight consulted a choice
	Commits int
	Aborts  int
}

// PC returns the Go label the process is at ("" when done).
func (p *Proc) PC() string {
	if p.Done {
		return ""
	}
	return p.Ctx.IFace().ReadArchetypeResourceLocal(".pc").AsString()
}

// TLAPC returns the pc value as the TLA+ translation names it.
func (p *Proc) TLAPC() string {
	if p.Done {
		return "Done"
	}
	pc := p.PC()
	if p.LabelName != nil {
		return p.LabelName(pc)
	}
	return pc[strings.Index(pc, ".")+1:]
}

// Local reads a local state variable of the archetype by its Go name (without prefix).
func (p *Proc) Local(name string) tla.Value {
	return p.Ctx.IFace().ReadArchetypeResourceLocal(p.Arch.Name + "." + name)
}

// Step describes one committed step.
type Step struct {
	N     int // 1-based index of the commit
	Proc  *Proc
	Label string // Go label executed
	Elems []trace.Element
}

// Sched serialises the attempts of all processes.
type Sched struct {
	Rng   *rand.Rand
	Procs []*Proc
	Store *Store

	// Choice answers either/with choices and mapping-macro nondeterminism; nil = uniform.
	Choice func(p *Proc, id string, ceiling uint) uint
	// Eligible filters schedulable processes (policies: starvation, crash timing...); nil = all.
	Eligible func(p *Proc, step int) bool
	// Weight biases the pick among candidates; nil = uniform.
	Weight func(p *Proc, step int) int
	// OnCommit runs after every committed step (monitors, trace capture). A non-nil error ends the run.
	OnCommit func(st Step) error
	// OnAbort runs after every aborted attempt (the attempt must have had no effect). A non-nil error ends the run.
	OnAbort func(p *Proc, label string) error
	// IdleRounds is the number of consecutive rounds without a commit after which the run ends (default 3).
	IdleRounds int
	// ParkAlways parks every aborted attempt until the next commit (the simple discipline), instead of keeping
	// choice-dependent aborts schedulable and waking deterministic ones only on relevant writes.
	ParkAlways bool

	ready   chan msg
	quit    bool
	current *Proc
	Steps   int
	Aborts  int
	Labels  map[string]int // commits per Go label
	// Signature accumulates (proc,label) of commits, for interleaving-distinctness accounting.
	sig uint64
}

func NewSched(seed int64, st *Store) *Sched {
	return &Sched{Rng: rand.New(rand.NewSource(seed)), Store: st, ready: make(chan msg), Labels: map[string]int{}, IdleRounds: 3, sig: 1469598103934665603}
}

type gate struct {
	s *Sched
	p *Proc
}

func (g *gate) BeginCriticalSection(pc string) {
	if g.s.quit {
		panic(quitSentinel{})
	}
	g.s.ready <- msg{id: g.p.ID}
	if !<-g.p.grant {
		panic(quitSentinel{})
	}
}

func (g *gate) NextFairnessCounter(id string, ceiling uint) uint {
	if ceiling == 0 {
		panic("NextFairnessCounter with ceiling 0")
	}
	g.p.chose = true
	if g.s.Choice != nil {
		v := g.s.Choice(g.p, id, ceiling)
		if v >= ceiling {
			panic(fmt.Sprintf("harness choice oracle returned %d for ceiling %d (%s)", v, ceiling, id))
		}
		return v
	}
	return uint(g.s.Rng.Intn(int(ceiling)))
}

type recd struct{ p *Proc }

func (r recd) RecordEvent(e trace.Event) {
	r.p.hadEvt = true
	r.p.lastAb = e.IsAbort
	r.p.elems = append([]trace.Element(nil), e.Elements...)
}

// Add creates a process. cfg must bind constants and archetype parameters.
func (s *Sched) Add(self tla.Value, arch distsys.MPCalArchetype, locals map[string]string, group string, cfg ...distsys.MPCalContextConfigFn) *Proc {
	p := &Proc{ID: len(s.Procs), Self: self, Arch: arch, Locals: locals, Group: group, grant: make(chan bool)}
	all := append([]distsys.MPCalContextConfigFn{}, cfg...)
	all = append(all, distsys.SetFairnessCounter(&gate{s: s, p: p}), distsys.SetTraceRecorder(recd{p}))
	p.Ctx = distsys.NewMPCalContext(self, arch, all...)
	s.Procs = append(s.Procs, p)
	return p
}

// Start launches every process and waits until each is parked at its first gate.
func (s *Sched) Start() error {
	for _, p := range s.Procs {
		p := p
		go func() {
			defer func() {
				if r := recover(); r != nil {
					if _, ok := r.(quitSentinel); ok {
						s.ready <- msg{id: p.ID, finished: true, err: nil}
						return
					}
					s.ready <- msg{id: p.ID, finished: true, err: fmt.Errorf("panic: %v", r)}
				}
			}()
			err := p.Ctx.Run()
			s.ready <- msg{id: p.ID, finished: true, err: err}
		}()
	}
	for w := 0; w < len(s.Procs); w++ {
		m := <-s.ready
		p := s.Procs[m.id]
		if m.finished {
			p.Done = true
			p.Err = m.err
			if m.err != nil {
				return fmt.Errorf("%s(%v) failed before its first section: %w", p.Arch.Name, p.Self, m.err)
			}
			continue
		}
		p.atGate = true
	}
	return nil
}

// Shutdown releases every parked process with a quit signal and waits for their goroutines.
func (s *Sched) Shutdown() {
	s.quit = true
	n := 0
	for _, p := range s.Procs {
		if !p.Done && p.atGate {
			n++
			p.atGate = false
			go func(p *Proc) { p.grant <- false }(p)
		}
	}
	for i := 0; i < n; i++ {
		m := <-s.ready
		if !m.finished {
			i-- // cannot happen: quit makes the gate panic
		}
	}
}

// RunResult summarises a run.
type RunResult struct {
	Steps, Aborts int
	Err           error // archetype error (assertion etc.) or monitor error that ended the run
	ErrProc       *Proc
	ErrLabel      string // the Go label ErrProc was executing when the error arose
	MonitorErr    bool
	EndedIdle     bool
}

// grantOnce lets p run one attempt and returns once it is back at its gate or finished.
func (s *Sched) grantOnce(p *Proc) (finished bool) {
	p.hadEvt = false
	p.atGate = false
	p.chose = false
	s.current = p
	s.Store.resetAccess()
	p.grant <- true
	m := <-s.ready
	if m.id != p.ID {
		panic("simsched: message from a process that was not granted")
	}
	if m.finished {
		p.Done = true
		p.Err = m.err
		return true
	}
	p.atGate = true
	return false
}

// Run executes up to maxSteps committed steps.
func (s *Sched) Run(maxSteps int) RunResult {
	res := RunResult{}
	idle := 0
	sinceCommit := 0
	for s.Steps < maxSteps {
		if sinceCommit > 30*len(s.Procs) {
			// choice-dependent attempts keep aborting: count it as an idle round
			sinceCommit = 0
			idle++
			if idle >= s.IdleRounds {
				res.EndedIdle = true
				break
			}
			for _, p := range s.Procs {
				p.Parked = false
			}
		}
		var cands []*Proc
		alive := 0
		for _, p := range s.Procs {
			if p.Done {
				continue
			}
			alive++
			if p.Parked {
				continue
			}
			if s.Eligible != nil && !s.Eligible(p, s.Steps) {
				continue
			}
			cands = append(cands, p)
		}
		if alive == 0 {
			break
		}
		if len(cands) == 0 {
			idle++
			if idle >= s.IdleRounds {
				res.EndedIdle = true
				break
			}
			for _, p := range s.Procs {
				p.Parked = false
			}
			// if eligibility excludes everyone even after release, stop
			any := false
			for _, p := range s.Procs {
				if !p.Done && (s.Eligible == nil || s.Eligible(p, s.Steps)) {
					any = true
				}
			}
			if !any {
				res.EndedIdle = true
				break
			}
			continue
		}
		var p *Proc
		if s.Weight != nil {
			tot := 0
			ws := make([]int, len(cands))
			for i, c := range cands {
				w := s.Weight(c, s.Steps)
				if w < 0 {
					w = 0
				}
				ws[i] = w
				tot += w
			}
			if tot == 0 {
				p = cands[s.Rng.Intn(len(cands))]
			} else {
				x := s.Rng.Intn(tot)
				for i, w := range ws {
					if x < w {
						p = cands[i]
						break
					}
					x -= w
				}
			}
		} else {
			p = cands[s.Rng.Intn(len(cands))]
		}
		label := p.PC()
		if strings.HasSuffix(label, ".Done") {
			// pseudo-label: lets Run return; not a step of the specification
			s.grantOnce(p)
			if p.Err != nil {
				res.Err, res.ErrProc = p.Err, p
				break
			}
			continue
		}
		finished := s.grantOnce(p)
		if finished && p.Err != nil {
			res.Err, res.ErrProc, res.ErrLabel = p.Err, p, label
			break
		}
		if !p.hadEvt { // no event: cannot happen for a real label
			continue
		}
		if p.lastAb {
			p.Aborts++
			s.Aborts++
			sinceCommit++
			if s.OnAbort != nil {
				if err := s.OnAbort(p, label); err != nil {
					res.Err, res.ErrProc, res.MonitorErr = err, p, true
					break
				}
			}
			// An attempt that consulted a choice may succeed with another answer: it stays schedulable.
			// A deterministic abort is parked until a commit writes a cell it accessed (or an idle round).
			if !p.chose || s.ParkAlways {
				p.Parked = true
				p.waitOn = s.Store.acc
				if s.ParkAlways || len(p.waitOn) == 0 {
					p.waitOn = nil
				}
			}
			continue
		}
		idle = 0
		sinceCommit = 0
		p.Commits++
		s.Steps++
		s.Labels[label]++
		s.sig = (s.sig ^ uint64(p.ID*131+len(label)) ^ hashStr(label)) * 1099511628211
		for _, q := range s.Procs {
			if !q.Parked {
				continue
			}
			if q.waitOn == nil {
				q.Parked = false
				continue
			}
			for k := range s.Store.wr {
				if q.waitOn[k] || q.waitOn[varOf(k)] {
					q.Parked = false
					break
				}
				// a whole-variable write wakes everyone waiting on a cell of it
				if !strings.Contains(k, "|") {
					for w := range q.waitOn {
						if varOf(w) == k {
							q.Parked = false
							break
						}
					}
				}
			}
		}
		if s.OnCommit != nil {
			if err := s.OnCommit(Step{N: s.Steps, Proc: p, Label: label, Elems: p.elems}); err != nil {
				res.Err, res.ErrProc, res.MonitorErr = err, p, true
				break
			}
		}
	}
	res.Steps, res.Aborts = s.Steps, s.Aborts
	return res
}

func varOf(k string) string {
	if i := strings.Index(k, "|"); i >= 0 {
		return k[:i]
	}
	return k
}

func hashStr(s string) uint64 {
	h := uint64(1469598103934665603)
	for _, c := range []byte(s) {
		h ^= uint64(c)
		h *= 1099511628211
	}
	return h
}

// Signature is a hash of the sequence of (process, label) commits so far.
func (s *Sched) Signature() string { return fmt.Sprintf("%016x", s.sig) }

// Current returns the process whose attempt is running (for mapping macros that need it).
func (s *Sched) Current() *Proc { return s.current }

// ---------- TLA+ rendering of the global state ----------

// TLAState renders the exact state between attempts as a TLA+ record: pc, every renamed local of
// every process, and every Store variable whose name does not start with "__".
func (s *Sched) TLAState() string {
	vars := map[string][]string{}
	var pcs []string
	procs := append([]*Proc{}, s.Procs...)
	sort.Slice(procs, func(i, j int) bool { return Less(procs[i].Self, procs[j].Self) })
	for _, p := range procs {
		pcs = append(pcs, fmt.Sprintf("(%s) :> %q", p.Self.String(), p.TLAPC()))
		names := make([]string, 0, len(p.Locals))
		for g := range p.Locals {
			names = append(names, g)
		}
		sort.Strings(names)
		for _, g := range names {
			t := p.Locals[g]
			v := p.Ctx.IFace().ReadArchetypeResourceLocal(p.Arch.Name + "." + g)
			vars[t] = append(vars[t], fmt.Sprintf("(%s) :> (%s)", p.Self.String(), v.String()))
		}
	}
	parts := []string{"pc |-> (" + strings.Join(pcs, " @@ ") + ")"}
	var ts []string
	for t := range vars {
		ts = append(ts, t)
	}
	sort.Strings(ts)
	for _, t := range ts {
		parts = append(parts, t+" |-> ("+strings.Join(vars[t], " @@ ")+")")
	}
	for _, g := range s.Store.Names() {
		if strings.HasPrefix(g, "__") {
			continue
		}
		parts = append(parts, g+" |-> "+s.Store.Committed[g].String())
	}
	return "[" + strings.Join(parts, ",\n   ") + "]"
}

// TLAVars lists the variable names TLAState renders (pc first).
func (s *Sched) TLAVars() []string {
	seen := map[string]bool{}
	out := []string{"pc"}
	var ts []string
	for _, p := range s.Procs {
		for _, t := range p.Locals {
			if !seen[t] {
				seen[t] = true
				ts = append(ts, t)
			}
		}
	}
	sort.Strings(ts)
	out = append(out, ts...)
	for _, g := range s.Store.Names() {
		if !strings.HasPrefix(g, "__") {
			out = append(out, g)
		}
	}
	return out
}

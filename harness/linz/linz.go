// Package linz checks recorded key-value histories for linearizability with porcupine.
package linz

import (
	"fmt"
	"sort"
	"time"

	"github.com/anishathalye/porcupine"
)

// Op is one client operation; times come from one monotonic (logical or real) counter.
type Op struct {
	Client    int
	Put       bool
	Key, Val  string // Put: value written; Get: value returned
	Found     bool   // Get: key present
	Call, Ret int64  // Ret < 0: no response (operation stays open until the end of the history)
	Extra     bool   // a synthetic extra transmission of a Put (at-least-once model)
	Sends     int    // Put: number of times the client transmitted the request (>= 1); used by CheckAtLeastOnce
}

type in struct {
	Put      bool
	Key, Val string
	Dups     int // at-least-once model: extra applications this Put may still cause after it took effect
}
type out struct {
	Found bool
	Val   string
	Open  bool
}

var model = porcupine.Model{
	Partition: func(history []porcupine.Operation) [][]porcupine.Operation {
		m := map[string][]porcupine.Operation{}
		var keys []string
		for _, o := range history {
			k := o.Input.(in).Key
			if _, ok := m[k]; !ok {
				keys = append(keys, k)
			}
			m[k] = append(m[k], o)
		}
		sort.Strings(keys)
		var res [][]porcupine.Operation
		for _, k := range keys {
			res = append(res, m[k])
		}
		return res
	},
	Init: func() interface{} { return "\x00none" },
	Step: func(st, i, o interface{}) (bool, interface{}) {
		ii, oo := i.(in), o.(out)
		if ii.Put {
			return true, ii.Val
		}
		if oo.Open {
			return true, st
		}
		if st.(string) == "\x00none" {
			return !oo.Found, st
		}
		return oo.Found && oo.Val == st.(string), st
	},
	DescribeOperation: func(i, o interface{}) string { return fmt.Sprintf("%+v -> %+v", i, o) },
}

// Result of a check.
type Result int

const (
	Ok Result = iota
	Illegal
	Unknown
)

// Check decides linearizability of ops against a per-key register map. Open Puts are kept with an infinite
// return time (they may take effect at any later point); open Gets are dropped (both sound).
func Check(ops []Op, timeout time.Duration) Result {
	var maxT int64
	for _, o := range ops {
		if o.Ret > maxT {
			maxT = o.Ret
		}
		if o.Call > maxT {
			maxT = o.Call
		}
	}
	var h []porcupine.Operation
	for _, o := range ops {
		if o.Ret < 0 {
			if !o.Put {
				continue
			}
			h = append(h, porcupine.Operation{ClientId: clientID(o, len(h)), Input: in{true, o.Key, o.Val, 0}, Call: o.Call, Output: out{Open: true}, Return: maxT + 1_000_000})
			continue
		}
		h = append(h, porcupine.Operation{ClientId: clientID(o, len(h)), Input: in{o.Put, o.Key, o.Val, 0}, Call: o.Call, Output: out{Found: o.Found, Val: o.Val}, Return: o.Ret})
	}
	switch porcupine.CheckOperationsTimeout(model, h, timeout) {
	case porcupine.Ok:
		return Ok
	case porcupine.Illegal:
		return Illegal
	}
	return Unknown
}

func clientID(o Op, n int) int {
	if o.Extra || o.Ret < 0 {
		return 1_000_000 + n // synthetic / retired logical client
	}
	return o.Client
}

// ---- at-least-once Put model ----
//
// State = current value plus a multiset of "armed" values: a Put transmitted n times takes effect once at its
// linearization point and arms n-1 further applications of the same value, each of which may happen at any
// later time (or never). A Get may observe the current value, or an armed value (which then becomes current
// and loses one armed application). This is the register a store WITHOUT duplicate suppression implements.

func encodeState(val string, armed map[string]int) string {
	var ks []string
	for k, n := range armed {
		if n > 0 {
			ks = append(ks, fmt.Sprintf("%s=%d", k, n))
		}
	}
	sort.Strings(ks)
	s := val + "\x01"
	for _, k := range ks {
		s += k + "\x02"
	}
	return s
}

func decodeState(s string) (string, map[string]int) {
	armed := map[string]int{}
	i := 0
	for i < len(s) && s[i] != 1 {
		i++
	}
	val := s[:i]
	rest := s[i+1:]
	start := 0
	for j := 0; j < len(rest); j++ {
		if rest[j] == 2 {
			kv := rest[start:j]
			for q := len(kv) - 1; q >= 0; q-- {
				if kv[q] == '=' {
					n := 0
					fmt.Sscanf(kv[q+1:], "%d", &n)
					armed[kv[:q]] = n
					break
				}
			}
			start = j + 1
		}
	}
	return val, armed
}

var modelALO = porcupine.Model{
	Partition: model.Partition,
	Init:      func() interface{} { return encodeState("\x00none", nil) },
	Step: func(st, i, o interface{}) (bool, interface{}) {
		ii, oo := i.(in), o.(out)
		val, armed := decodeState(st.(string))
		if ii.Put {
			if ii.Dups > 0 {
				armed[ii.Val] += ii.Dups
			}
			return true, encodeState(ii.Val, armed)
		}
		if oo.Open {
			return true, st
		}
		if val == "\x00none" && !oo.Found {
			return true, st
		}
		if oo.Found && oo.Val == val {
			return true, st
		}
		if oo.Found && armed[oo.Val] > 0 {
			armed[oo.Val]--
			return true, encodeState(oo.Val, armed)
		}
		return false, st
	},
	DescribeOperation: model.DescribeOperation,
}

// CheckAtLeastOnce decides linearizability against the at-least-once register (see above); Op.Sends gives the
// number of transmissions of each Put.
func CheckAtLeastOnce(ops []Op, timeout time.Duration) Result {
	var maxT int64
	for _, o := range ops {
		if o.Ret > maxT {
			maxT = o.Ret
		}
		if o.Call > maxT {
			maxT = o.Call
		}
	}
	var h []porcupine.Operation
	for _, o := range ops {
		d := 0
		if o.Put && o.Sends > 1 {
			d = o.Sends - 1
		}
		if o.Ret < 0 {
			if !o.Put {
				continue
			}
			h = append(h, porcupine.Operation{ClientId: clientID(o, len(h)), Input: in{true, o.Key, o.Val, d}, Call: o.Call, Output: out{Open: true}, Return: maxT + 1_000_000})
			continue
		}
		h = append(h, porcupine.Operation{ClientId: clientID(o, len(h)), Input: in{o.Put, o.Key, o.Val, d}, Call: o.Call, Output: out{Found: o.Found, Val: o.Val}, Return: o.Ret})
	}
	switch porcupine.CheckOperationsTimeout(modelALO, h, timeout) {
	case porcupine.Ok:
		return Ok
	case porcupine.Illegal:
		return Illegal
	}
	return Unknown
}

// Verdict of Classify.
type Verdict int

const (
	VOk          Verdict = iota // linearizable against a per-key register
	VAtLeastOnce                // not linearizable, but linearizable against the at-least-once register (retransmitted Puts may re-apply)
	VIllegal                    // not linearizable under either model
	VUnknown                    // a checker timed out
)

// Classify runs the strict check and, if it fails, the at-least-once check.
func Classify(ops []Op, timeout time.Duration) Verdict {
	switch Check(ops, timeout) {
	case Ok:
		return VOk
	case Unknown:
		return VUnknown
	}
	switch CheckAtLeastOnce(ops, timeout) {
	case Ok:
		return VAtLeastOnce
	case Illegal:
		return VIllegal
	}
	return VUnknown
}

// Package cluster runs real deployments built through the repository's own bootstrap code over 127.0.0.1
// and observes them through the commit-point hook (H1) and client-boundary histories.
package cluster

import (
	"fmt"
	"io"
	"log"
	"math/rand"
	"net"
	"os"
	"path/filepath"
	"sync"
	"sync/atomic"
	"time"

	"verifh/adapters"
	"verifh/common"
	"verifh/simsched"

	"github.com/DistCompiler/pgo/distsys"
	"github.com/DistCompiler/pgo/distsys/tla"
	"github.com/DistCompiler/pgo/distsys/trace"
	"github.com/DistCompiler/pgo/systems/raftkvs/bootstrap"
	"github.com/DistCompiler/pgo/systems/raftkvs/configs"
	"github.com/dgraph-io/badger/v3"
)

// RaftRun configures one real raftkvs cluster run.
type RaftRun struct {
	NS, NC       int
	Persist      bool
	Seed         int64
	OpsPerClient int
	Keys         int
	PutPct       int
	Crash        int           // number of servers to crash-stop (must stay a minority)
	CrashAfter   int           // completed client operations before the crash
	Scale        int           // multiplier on every timeout (race builds: 6)
	ReqTimeout   time.Duration // client request timeout before scaling
	Disrupt      time.Duration // PGO_DISRUPT_CONCURRENCY (0 = off)
	MaxWall      time.Duration // cap on the driving phase; operations without reply stay open
}

// FreePorts reserves n distinct TCP ports on 127.0.0.1 (released before returning).
func FreePorts(n int) []int {
	var ls []net.Listener
	var ps []int
	for i := 0; i < n; i++ {
		l, err := net.Listen("tcp", "127.0.0.1:0")
		if err != nil {
			panic(err)
		}
		ls = append(ls, l)
		ps = append(ps, l.Addr().(*net.TCPAddr).Port)
	}
	for _, l := range ls {
		l.Close()
	}
	return ps
}

type nullRec struct{}

func (nullRec) RecordEvent(trace.Event) {}

// RaftChild runs the cluster in this (child) process and writes a JSONL report to outPath:
// {"kind":"violation",...} from the online monitors, {"kind":"op",...} client history, {"kind":"stats",...}, {"kind":"end"}.
func RaftChild(cfg RaftRun, outPath, scratch string) {
	log.SetOutput(io.Discard)
	if cfg.Scale < 1 {
		cfg.Scale = 1
	}
	if cfg.Disrupt > 0 {
		os.Setenv("PGO_DISRUPT_CONCURRENCY", cfg.Disrupt.String())
	}
	sc := time.Duration(cfg.Scale)
	w := common.NewJSONLWriter(outPath)
	defer w.Close()
	ports := FreePorts(2*cfg.NS + cfg.NC)
	root := configs.Root{
		NumServers: cfg.NS, NumClients: cfg.NC, Persist: cfg.Persist,
		ClientRequestTimeout:      cfg.ReqTimeout * sc,
		FD:                        configs.FD{PullInterval: 100 * time.Millisecond * sc, Timeout: 50 * time.Millisecond * sc},
		Mailboxes:                 configs.Mailboxes{ReceiveChanSize: 10000, DialTimeout: 100 * time.Millisecond * sc, ReadTimeout: 100 * time.Millisecond * sc, WriteTimeout: 100 * time.Millisecond * sc},
		LeaderElection:            configs.LeaderElection{Timeout: 150 * time.Millisecond * sc, TimeoutOffset: 150 * time.Millisecond * sc},
		AppendEntriesSendInterval: 5 * time.Millisecond * sc,
		SharedResourceTimeout:     3 * time.Millisecond * sc,
		InputChanReadTimeout:      5 * time.Millisecond * sc,
		Servers:                   map[int]configs.Server{}, Clients: map[int]configs.Client{},
	}
	for i := 1; i <= cfg.NS; i++ {
		root.Servers[i] = configs.Server{MailboxAddr: fmt.Sprintf("127.0.0.1:%d", ports[2*(i-1)]), MonitorAddr: fmt.Sprintf("127.0.0.1:%d", ports[2*(i-1)+1])}
	}
	for c := 1; c <= cfg.NC; c++ {
		root.Clients[c] = configs.Client{MailboxAddr: fmt.Sprintf("127.0.0.1:%d", ports[2*cfg.NS+c-1])}
	}

	// ---- shadow state + online monitors fed from the commit-point hook ----
	NS := cfg.NS
	srvSet := tla.ModuleDotDotSymbol(simsched.N(1), simsched.N(NS))
	shadow := map[string]tla.Value{
		"state":       simsched.Fn(srvSet, simsched.K(simsched.S("follower"))),
		"currentTerm": simsched.Fn(srvSet, simsched.K(simsched.N(1))),
		"commitIndex": simsched.Fn(srvSet, simsched.K(simsched.N(0))),
		"log":         simsched.Fn(srvSet, simsched.K(simsched.Tup())),
		"sm":          simsched.Fn(srvSet, simsched.K(tla.MakeRecord(nil))),
		"smDomain":    simsched.Fn(srvSet, simsched.K(simsched.Set())),
	}
	mon := adapters.NewRaftMonitor(NS, func(v string) tla.Value { return shadow[v] }, "C08:cluster:", false)
	var mu sync.Mutex
	sends := map[[2]int]int{} // (client, request index) -> transmissions
	var events, violations int64
	labels := map[string]int{}
	distsys.VerifExtraConfig = []distsys.MPCalContextConfigFn{distsys.SetTraceRecorder(nullRec{})}
	distsys.VerifHooks.CommitPoint = func(ctx *distsys.MPCalContext, archetype string, self tla.Value, elems []trace.Element) {
		mu.Lock()
		defer mu.Unlock()
		if archetype == "AClient" {
			// count transmissions per (client, request index): a committed sndReq that wrote to the network
			if len(elems) > 0 {
				if r0, ok := elems[0].(trace.ReadElement); ok && r0.Name == ".pc" && r0.Value.StripVClock().AsString() == "AClient.sndReq" {
					for _, e := range elems {
						if we, ok := e.(trace.WriteElement); ok && we.Name == "net" {
							idx := int(simsched.Fld(simsched.Fld(we.Value.StripVClock(), "mcmd"), "idx").AsNumber())
							sends[[2]int{int(self.AsNumber()) - 6*NS, idx}]++
						}
					}
				}
			}
			return
		}
		events++
		label := ""
		changed := false
		for i, e := range elems {
			switch e := e.(type) {
			case trace.ReadElement:
				if i == 0 && e.Name == ".pc" {
					label = e.Value.StripVClock().AsString()
				}
			case trace.WriteElement:
				if _, ok := shadow[e.Name]; !ok || len(e.Indices) == 0 {
					continue
				}
				val := e.Value.StripVClock()
				shadow[e.Name] = simsched.Except(shadow[e.Name], val, e.Indices...)
				changed = true
			}
		}
		labels[label]++
		if !changed {
			return
		}
		for _, v := range mon.Check(fmt.Sprintf("commit-point event %d (%s of %s)", events, label, self.String())) {
			violations++
			if violations <= 5 {
				w.Emit(map[string]any{"kind": "violation", "key": v.Key, "desc": v.Desc})
			}
		}
	}

	bootstrap.ResetClientFailureDetector()
	var servers []*bootstrap.Server
	var dbs []*badger.DB
	for id := 1; id <= NS; id++ {
		var db *badger.DB
		if cfg.Persist {
			var err error
			db, err = badger.Open(badger.DefaultOptions(filepath.Join(scratch, fmt.Sprintf("badger-%d", id))).WithLogger(nil))
			if err != nil {
				w.Emit(map[string]any{"kind": "setup-error", "err": err.Error()})
				w.Emit(map[string]any{"kind": "end"})
				return
			}
			dbs = append(dbs, db)
		}
		s := bootstrap.NewServer(id, root, db)
		servers = append(servers, s)
		go func() { _ = s.Run() }()
	}

	// ---- clients: unique Put values, history at the public Client.Run channels ----
	start := time.Now()
	now := func() int64 { return int64(time.Since(start)) }
	var completed int64
	var hmu sync.Mutex
	type opRec struct {
		Client    int
		Idx       int
		Put       bool
		Key, Val  string
		Found     bool
		Call, Ret int64
	}
	var hist []*opRec
	var wg sync.WaitGroup
	stopAll := make(chan struct{})
	var clients []*bootstrap.Client
	for c := 1; c <= cfg.NC; c++ {
		cl := bootstrap.NewClient(c, root)
		clients = append(clients, cl)
		reqCh := make(chan bootstrap.Request)
		respCh := make(chan bootstrap.Response)
		go func() { _ = cl.Run(reqCh, respCh) }()
		wg.Add(1)
		go func(c int) {
			defer wg.Done()
			rng := rand.New(rand.NewSource(cfg.Seed*1000 + int64(c)))
			for i := 0; i < cfg.OpsPerClient; i++ {
				key := fmt.Sprintf("k%d", rng.Intn(cfg.Keys))
				op := &opRec{Client: c, Idx: i + 1, Key: key, Ret: -1}
				var req bootstrap.Request
				if rng.Intn(100) < cfg.PutPct {
					op.Put = true
					op.Val = fmt.Sprintf("c%d-%d", c, i)
					req = bootstrap.PutRequest{Key: key, Value: op.Val}
				} else {
					req = bootstrap.GetRequest{Key: key}
				}
				hmu.Lock()
				op.Call = now()
				hist = append(hist, op)
				hmu.Unlock()
				select {
				case reqCh <- req:
				case <-stopAll:
					return
				}
				select {
				case resp := <-respCh:
					hmu.Lock()
					op.Ret = now()
					if !op.Put {
						op.Found = resp.OK
						op.Val = resp.Value
					}
					hmu.Unlock()
					atomic.AddInt64(&completed, 1)
				case <-stopAll:
					return
				}
			}
		}(c)
	}
	// crash-stop of a minority at a logical point (after CrashAfter completed operations)
	crashed := 0
	crashedSet := map[int]bool{}
	crashDone := make(chan struct{})
	go func() {
		defer close(crashDone)
		if cfg.Crash <= 0 {
			return
		}
		for atomic.LoadInt64(&completed) < int64(cfg.CrashAfter) {
			select {
			case <-stopAll:
				return
			default:
			}
			time.Sleep(time.Millisecond)
		}
		// prefer the current leader (per the shadow state) as first victim
		mu.Lock()
		victim := 1
		for i := 1; i <= NS; i++ {
			if shadow["state"].ApplyFunction(simsched.N(i)).AsString() == "leader" {
				victim = i
			}
		}
		mu.Unlock()
		for k := 0; k < cfg.Crash; k++ {
			id := (victim-1+k)%NS + 1
			_ = servers[id-1].Close()
			crashed++
			crashedSet[id] = true
			w.Emit(map[string]any{"kind": "crash", "server": id, "after_ops": atomic.LoadInt64(&completed)})
		}
	}()
	done := make(chan struct{})
	go func() { wg.Wait(); close(done) }()
	timedOut := false
	select {
	case <-done:
	case <-time.After(cfg.MaxWall):
		timedOut = true
	}
	close(stopAll)
	<-crashDone
	// stop everything (quiescent point)
	for _, cl := range clients {
		go cl.Close()
	}
	for _, s := range servers {
		if !crashedSet[s.Id] {
			_ = s.Close()
		}
	}
	mu.Lock()
	final := mon.Check("quiescent point after stopping every server")
	for _, v := range final {
		w.Emit(map[string]any{"kind": "violation", "key": v.Key, "desc": v.Desc})
	}
	st := mon.Stats
	leaders := map[string]int{}
	for t, l := range st.Leaders {
		leaders[fmt.Sprint(t)] = l
	}
	w.Emit(map[string]any{"kind": "stats", "commit_point_events": events, "labels": labels, "leaders_by_term": leaders, "max_term": st.MaxTerm,
		"truncations": st.Truncations, "entries_committed": st.Applied, "crashed": crashed, "completed_ops": atomic.LoadInt64(&completed), "drive_timed_out": timedOut, "monitor_violations": violations})
	mu.Unlock()
	hmu.Lock()
	mu.Lock()
	for _, op := range hist {
		w.Emit(map[string]any{"kind": "op", "client": op.Client, "put": op.Put, "key": op.Key, "val": op.Val, "found": op.Found, "call": op.Call, "ret": op.Ret, "sends": sends[[2]int{op.Client, op.Idx}]})
	}
	mu.Unlock()
	hmu.Unlock()
	for _, db := range dbs {
		db.Close()
	}
	w.Emit(map[string]any{"kind": "end"})
}

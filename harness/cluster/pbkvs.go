package cluster

import (
	"fmt"
	"io"
	"log"
	"math/rand"
	"sync"
	"sync/atomic"
	"time"

	"verifh/common"

	"github.com/DistCompiler/pgo/distsys"
	"github.com/DistCompiler/pgo/distsys/tla"
	"github.com/DistCompiler/pgo/distsys/trace"
	"github.com/DistCompiler/pgo/systems/pbkvs/bootstrap"
	"github.com/DistCompiler/pgo/systems/pbkvs/configs"
)

// PbkvsRun configures one failure-free run of the primary-backup store through its own bootstrap code over TCP.
// (The shipped LeaderElection resource always answers 1, so fail-over cannot be exercised here.)
type PbkvsRun struct {
	NR, NC       int
	Seed         int64
	OpsPerClient int
	Keys         int
	PutPct       int
	Scale        int
	MaxWall      time.Duration
}

// PbkvsChild runs the deployment in this process and writes a JSONL report: ops, final replica stores, stats, end.
func PbkvsChild(cfg PbkvsRun, outPath string) {
	log.SetOutput(io.Discard)
	if cfg.Scale < 1 {
		cfg.Scale = 1
	}
	sc := time.Duration(cfg.Scale)
	w := common.NewJSONLWriter(outPath)
	defer w.Close()
	ports := FreePorts(3*cfg.NR + 2*cfg.NC)
	root := configs.Root{NumReplicas: cfg.NR, NumClients: cfg.NC, ClientRequestTimeout: 20 * time.Second * sc,
		FD:                   configs.FD{PullInterval: 200 * time.Millisecond * sc, Timeout: 100 * time.Millisecond * sc},
		Mailboxes:            configs.Mailboxes{ReceiveChanSize: 10000, DialTimeout: 50 * time.Millisecond * sc, ReadTimeout: 50 * time.Millisecond * sc, WriteTimeout: 50 * time.Millisecond * sc},
		InputChanReadTimeout: 5 * time.Millisecond * sc, Replicas: map[int]configs.Replica{}, Clients: map[int]configs.Client{}}
	a := func(i int) string { return fmt.Sprintf("127.0.0.1:%d", ports[i]) }
	for i := 1; i <= cfg.NR; i++ {
		root.Replicas[i] = configs.Replica{ReqMailboxAddr: a(3 * (i - 1)), RespMailboxAddr: a(3*(i-1) + 1), MonitorAddr: a(3*(i-1) + 2)}
	}
	for c := 1; c <= cfg.NC; c++ {
		root.Clients[c] = configs.Client{ReqMailboxAddr: a(3*cfg.NR + 2*(c-1)), RespMailboxAddr: a(3*cfg.NR + 2*(c-1) + 1)}
	}
	// shadow of every replica's file system from the committed writes (H1 commit points)
	var mu sync.Mutex
	fs := map[int]map[string]string{}
	var events int64
	distsys.VerifExtraConfig = []distsys.MPCalContextConfigFn{distsys.SetTraceRecorder(nullRec{})}
	distsys.VerifHooks.CommitPoint = func(ctx *distsys.MPCalContext, archetype string, self tla.Value, elems []trace.Element) {
		if archetype != "AReplica" {
			return
		}
		mu.Lock()
		defer mu.Unlock()
		events++
		for _, e := range elems {
			if we, ok := e.(trace.WriteElement); ok && we.Name == "fs" && len(we.Indices) == 2 {
				r := int(we.Indices[0].AsNumber())
				if fs[r] == nil {
					fs[r] = map[string]string{}
				}
				fs[r][we.Indices[1].AsString()] = we.Value.StripVClock().AsString()
			}
		}
	}
	bootstrap.ResetClientFailureDetector()
	var replicas []*bootstrap.Replica
	for i := 1; i <= cfg.NR; i++ {
		r := bootstrap.NewReplica(i, root)
		replicas = append(replicas, r)
		go func() { _ = r.Run() }()
	}
	start := time.Now()
	now := func() int64 { return int64(time.Since(start)) }
	type opRec struct {
		Client    int
		Put       bool
		Key, Val  string
		Found     bool
		Call, Ret int64
	}
	var hmu sync.Mutex
	var hist []*opRec
	var completed int64
	var wg sync.WaitGroup
	var clients []*bootstrap.Client
	for c := 1; c <= cfg.NC; c++ {
		cl := bootstrap.NewClient(c, root)
		clients = append(clients, cl)
		go func() { _ = cl.Run() }()
		wg.Add(1)
		go func(c int, cl *bootstrap.Client) {
			defer wg.Done()
			rng := rand.New(rand.NewSource(cfg.Seed*1000 + int64(c)))
			for i := 0; i < cfg.OpsPerClient; i++ {
				key := fmt.Sprintf("k%d", rng.Intn(cfg.Keys))
				op := &opRec{Client: c, Key: key, Ret: -1}
				put := rng.Intn(100) < cfg.PutPct
				if put {
					op.Put, op.Val = true, fmt.Sprintf("c%d-%d", c, i)
				}
				hmu.Lock()
				op.Call = now()
				hist = append(hist, op)
				hmu.Unlock()
				var resp bootstrap.Response
				var err error
				if put {
					resp, err = cl.Put(key, op.Val)
				} else {
					resp, err = cl.Get(key)
				}
				if err != nil && err.Error() == "timeout" {
					return // the operation stays open; this logical client is retired
				}
				hmu.Lock()
				op.Ret = now()
				if !put {
					op.Val = string(resp)
					op.Found = op.Val != ""
				}
				hmu.Unlock()
				atomic.AddInt64(&completed, 1)
			}
		}(c, cl)
	}
	done := make(chan struct{})
	go func() { wg.Wait(); close(done) }()
	timedOut := false
	select {
	case <-done:
	case <-time.After(cfg.MaxWall):
		timedOut = true
	}
	for _, cl := range clients {
		go cl.Close()
	}
	for _, r := range replicas {
		_ = r.Close()
	}
	mu.Lock()
	final := map[string]map[string]string{}
	for r, m := range fs {
		final[fmt.Sprint(r)] = m
	}
	w.Emit(map[string]any{"kind": "stats", "commit_point_events": events, "completed_ops": atomic.LoadInt64(&completed), "drive_timed_out": timedOut, "final_fs": final})
	mu.Unlock()
	hmu.Lock()
	for _, op := range hist {
		w.Emit(map[string]any{"kind": "op", "client": op.Client, "put": op.Put, "key": op.Key, "val": op.Val, "found": op.Found, "call": op.Call, "ret": op.Ret, "sends": 1})
	}
	hmu.Unlock()
	w.Emit(map[string]any{"kind": "end"})
}

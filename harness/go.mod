module verifh

go 1.24.0

require github.com/anishathalye/porcupine v1.3.0

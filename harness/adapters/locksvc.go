package adapters

import (
	"fmt"
	"math/rand"

	. "verifh/simsched"

	"github.com/DistCompiler/pgo/distsys"
	"github.com/DistCompiler/pgo/distsys/tla"
	"github.com/DistCompiler/pgo/systems/locksvc"
)

// ReliableLink mapping macro of locksvc: bag read with a choice / bag add.
func bagReadAny(id string) RD {
	return func(iface distsys.ArchetypeInterface, _ []tla.Value, c tla.Value) (tla.Value, tla.Value, error) {
		es := BagElems(c)
		if len(es) == 0 {
			return c, c, ErrAbort
		}
		m := es[iface.NextFairnessCounter(id, uint(len(es)))]
		return BagDel(c, m), m, nil
	}
}

func bagWrite(_ distsys.ArchetypeInterface, _ []tla.Value, c, v tla.Value) (tla.Value, error) {
	return BagAdd(c, v), nil
}

func init() {
	Register(Factory{Name: "locksvc", Tags: []string{"c02", "c15"}, New: func(seed int64, exact bool, rng *rand.Rand) *Sim {
		return Locksvc(seed, 1+rng.Intn(5))
	}})
}

// Locksvc builds the lock service with numClients clients over the spec's bag network.
func Locksvc(seed int64, numClients int) *Sim {
	st := NewStore()
	nodes := tla.ModuleDotDotSymbol(N(0), N(numClients))
	st.Init("network", Fn(nodes, K(EmptyBag)))
	st.Init("hasLock", Fn(nodes, K(B(false))))
	s := NewSched(seed, st)
	consts := []distsys.MPCalContextConfigFn{distsys.DefineConstantValue("NumClients", N(numClients))}
	net := func() distsys.MPCalContextConfigFn {
		return distsys.EnsureArchetypeRefParam("network", M(st, "network", 1, bagReadAny("network.read"), bagWrite))
	}
	srv := s.Add(N(0), locksvc.AServer, map[string]string{"msg": "msg", "q": "q"}, "server", append(consts, net())...)
	var clients []*Proc
	for c := 1; c <= numClients; c++ {
		p := s.Add(N(c), locksvc.AClient, map[string]string{}, "client", append(consts, net(),
			distsys.EnsureArchetypeRefParam("hasLock", M(st, "hasLock", 1, PlainR, PlainW)))...)
		clients = append(clients, p)
	}
	sim := &Sim{Name: "locksvc", Sched: s, SpecFiles: []string{repoPath("systems/locksvc/locksvc.tla")}, Module: "locksvc",
		Constants: []string{fmt.Sprintf("NumClients = %d", numClients)}, Invariants: []string{"Safety"},
		Params: map[string]any{"NumClients": numClients}, MaxSteps: 2000}

	grant := N(3)
	grantsSeen := make([]int, numClients+1) // grants delivered into network[c] so far
	lockRecvOrder := []int{}                // clients in the order the server received their LockMsg
	csOrder := []int{}                      // clients in the order they entered the critical section
	served := make([]bool, numClients+1)
	requested := make([]bool, numClients+1)
	grantCount := func(c int) int {
		b := st.Get("network").ApplyFunction(N(c))
		if v, ok := b.AsFunction().Get(grant); ok {
			return int(v.AsNumber())
		}
		return 0
	}
	prevGrant := make([]int, numClients+1)
	sim.Monitor = func(step Step) []Violation {
		var vs []Violation
		// Safety: at most one client holds the lock
		held := []int{}
		for c := 1; c <= numClients; c++ {
			if st.Get("hasLock").ApplyFunction(N(c)).AsBool() {
				held = append(held, c)
			}
		}
		if len(held) > 1 {
			vs = append(vs, Violation{"C15:sim:two-holders", fmt.Sprintf("clients %v hold the lock at once after step %d (%s)", held, step.N, step.Label)})
		}
		switch step.Label {
		case "AClient.acquireLock":
			requested[int(step.Proc.Self.AsNumber())] = true
		case "AServer.serverReceive":
			m := srv.Local("msg")
			if Fld(m, "type").Equal(N(1)) {
				lockRecvOrder = append(lockRecvOrder, int(Fld(m, "from").AsNumber()))
			}
		case "AClient.criticalSection":
			c := int(step.Proc.Self.AsNumber())
			csOrder = append(csOrder, c)
			served[c] = true
			k := len(csOrder)
			if k > len(lockRecvOrder) || lockRecvOrder[k-1] != c {
				vs = append(vs, Violation{"C15:sim:service-order", fmt.Sprintf("client %d entered the critical section as number %d, but the server received lock requests in order %v", c, k, lockRecvOrder)})
			}
		}
		// grant discipline: a new GrantMsg in network[c] must coincide with c being head of q, requested and not yet served
		for c := 1; c <= numClients; c++ {
			g := grantCount(c)
			if g > prevGrant[c] {
				grantsSeen[c] += g - prevGrant[c]
				q := srv.Local("q")
				head := -1
				if q.AsTuple().Len() > 0 {
					head = int(tla.ModuleHead(q).AsNumber())
				}
				if head != c {
					vs = append(vs, Violation{"C15:sim:grant-not-to-head", fmt.Sprintf("grant sent to client %d while queue is %s (step %d %s)", c, q.String(), step.N, step.Label)})
				}
				if !requested[c] || served[c] || grantsSeen[c] > 1 {
					vs = append(vs, Violation{"C15:sim:grant-to-unrequested-or-served", fmt.Sprintf("grant number %d sent to client %d (requested=%v served=%v) at step %d %s", grantsSeen[c], c, requested[c], served[c], step.N, step.Label)})
				}
			}
			prevGrant[c] = g
		}
		return vs
	}
	sim.Final = func(res RunResult) []Violation {
		// bounded progress: the run ended idle; every client must have finished (no client is stuck forever
		// although the service is free) — the spec's fair behaviours all terminate the clients.
		var vs []Violation
		if res.EndedIdle {
			for _, c := range clients {
				if !c.Done {
					vs = append(vs, Violation{"C15:sim:client-stuck", fmt.Sprintf("run went idle with client %s at %s; cs order %v, lock order %v", c.Self.String(), c.PC(), csOrder, lockRecvOrder)})
				}
			}
		}
		return vs
	}
	return sim
}

package adapters

// Pure-operator pairs: the top-level operators of general/ExprTests and the `define` blocks of the other test
// pairs. The oracle (driver) lets TLC evaluate `GoPrintedValue = Op(args)` in the context of the artefact.

import (
	"fmt"
	"regexp"

	. "verifh/simsched"

	"github.com/DistCompiler/pgo/distsys"
	"github.com/DistCompiler/pgo/distsys/tla"

	exprtests "github.com/DistCompiler/pgo/test/files/general/ExprTests.tla.gotests"
	indexinglocals "github.com/DistCompiler/pgo/test/files/general/IndexingLocals.tla.gotests"
	nondet "github.com/DistCompiler/pgo/test/files/general/NonDetExploration.tla.gotests"
	pbfail "github.com/DistCompiler/pgo/test/files/general/PBFail4_bug125.tla.gotests"
	hello "github.com/DistCompiler/pgo/test/files/general/hello.tla.gotests"
	bug167 "github.com/DistCompiler/pgo/test/files/gogen/bug_167.tla.gotests"
)

var gtExprTestsRepairs = []gtRepair{{
	Stage: "pcal",
	Why:   "artefact as checked in is not loadable: operator Test2 (\"not expected to run\") binds the identifiers c and j twice in one tuple pattern (SANY: multiply-defined symbol); Test2 was removed from the scratch copy, every other operator is compared",
	Re:    regexp.MustCompile(`(?s)\nTest2 == .*?\n(\s*\n)*Test3 ==`),
	Repl:  "\n\nTest3 ==",
}}

// GotestsOp is one operator of a pair with its Go implementation.
type GotestsOp struct {
	Name  string
	Arity int
	Call  func(iface distsys.ArchetypeInterface, args []tla.Value) tla.Value
	// Args generates argument tuples (nil for arity 0).
	Args func() [][]tla.Value
	// Compare, if set, replaces the default relation `(VERIFGO) = verifv` (VERIFGO = printed Go value, verifv = TLC's
	// value) where the operator's definition leaves the value partly unspecified; CompareWhy says why.
	Compare, CompareWhy string
}

// GotestsOpPair is a set of operators evaluated under one binding of the constants.
type GotestsOpPair struct {
	Pair      string
	Constants []string                       // cfg lines
	Config    []distsys.MPCalContextConfigFn // the same binding for the Go side
	Ops       []GotestsOp
	Skipped   map[string]string // operators not compared, with the reason
}

func gtOp0(name string, f func(distsys.ArchetypeInterface) tla.Value) GotestsOp {
	return GotestsOp{Name: name, Call: func(i distsys.ArchetypeInterface, _ []tla.Value) tla.Value { return f(i) }}
}

func gtIntArgs1(lo, hi int, extra ...tla.Value) func() [][]tla.Value {
	return func() [][]tla.Value {
		var out [][]tla.Value
		for i := lo; i <= hi; i++ {
			out = append(out, []tla.Value{N(i)})
		}
		for _, e := range extra {
			out = append(out, []tla.Value{e})
		}
		return out
	}
}

// GotestsOperatorPairs lists every operator comparison of the test pairs.
func GotestsOperatorPairs() []GotestsOpPair {
	var out []GotestsOpPair
	out = append(out, GotestsOpPair{Pair: "general/ExprTests",
		Skipped: map[string]string{"Test2": "declared by its own comment as not expected to run; SANY rejects it (duplicate bound identifiers), removed from the scratch copy"},
		Ops: []GotestsOp{
			gtOp0("Test1", exprtests.Test1), gtOp0("Test3", exprtests.Test3), gtOp0("Test4", exprtests.Test4),
			{Name: "Test5", Arity: 2, Call: func(i distsys.ArchetypeInterface, a []tla.Value) tla.Value { return exprtests.Test5(i, a[0], a[1]) },
				Args: func() [][]tla.Value {
					var out [][]tla.Value
					for x := 0; x <= 4; x++ {
						for y := 0; y <= 4; y++ {
							out = append(out, []tla.Value{N(x), N(y)})
						}
					}
					return out
				}},
			{Name: "Test6", Arity: 1, Call: func(i distsys.ArchetypeInterface, a []tla.Value) tla.Value { return exprtests.Test6(i, a[0]) }, Args: gtIntArgs1(-2, 9)},
			{Name: "Test7", Arity: 1, Call: func(i distsys.ArchetypeInterface, a []tla.Value) tla.Value { return exprtests.Test7(i, a[0]) }, Args: gtIntArgs1(-2, 10)},
			gtOp0("Test8", exprtests.Test8), gtOp0("Test9", exprtests.Test9), gtOp0("Test10", exprtests.Test10), gtOp0("Test11", exprtests.Test11),
			gtOp0("Test12", exprtests.Test12), gtOp0("Test13", exprtests.Test13),
			{Name: "Test14", Call: func(i distsys.ArchetypeInterface, _ []tla.Value) tla.Value { return exprtests.Test14(i) },
				Compare:    `Len(VERIFGO) = Len(verifv) /\ \A verifi \in 1..Len(verifv) : (VERIFGO)[verifi] \in STRING /\ verifv[verifi] \in STRING`,
				CompareWhy: "module TLC defines ToString(v) as an unspecified string (CHOOSE over STRING): only 'a tuple of as many strings' can be demanded"},
		}})
	for v, f := range []func(a, b tla.Value) tla.Value{
		func(a, b tla.Value) tla.Value { return tla.MakeString(a.AsString() + b.AsString()) },
		func(a, b tla.Value) tla.Value { return Tup(b, a) },
		func(a, b tla.Value) tla.Value { return Rec("left", a, "right", Set(b)) },
	} {
		out = append(out, GotestsOpPair{Pair: "general/hello", Constants: []string{fmt.Sprintf("MK_HELLO <- VerifMkHello%d", v)},
			Config: []distsys.MPCalContextConfigFn{distsys.DefineConstantOperator("MK_HELLO", f)}, Ops: []GotestsOp{gtOp0("HELLO", hello.HELLO)}})
	}
	out = append(out, GotestsOpPair{Pair: "general/IndexingLocals", Ops: []GotestsOp{gtOp0("NodeSet", indexinglocals.NodeSet)}})
	out = append(out, GotestsOpPair{Pair: "general/NonDetExploration", Ops: []GotestsOp{gtOp0("TheSet", nondet.TheSet)}})
	for _, c := range [][4]int{{1, 1, 1, 0}, {3, 2, 2, 1}, {2, 5, 3, 0}} {
		tf := map[int]string{0: "FALSE", 1: "TRUE"}
		out = append(out, GotestsOpPair{Pair: "general/PBFail4_bug125",
			Constants: []string{fmt.Sprintf("NUM_REPLICAS = %d", c[0]), fmt.Sprintf("NUM_CLIENTS = %d", c[1]), fmt.Sprintf("BUFFER_SIZE = %d", c[2]), "EXPLORE_FAIL = " + tf[c[3]]},
			Config: []distsys.MPCalContextConfigFn{distsys.DefineConstantValue("NUM_REPLICAS", N(c[0])), distsys.DefineConstantValue("NUM_CLIENTS", N(c[1])),
				distsys.DefineConstantValue("BUFFER_SIZE", N(c[2])), distsys.DefineConstantValue("EXPLORE_FAIL", B(c[3] == 1))},
			Ops: []GotestsOp{gtOp0("NUM_NODES", pbfail.NUM_NODES), gtOp0("CLIENT_SRC", pbfail.CLIENT_SRC), gtOp0("PRIMARY_SRC", pbfail.PRIMARY_SRC), gtOp0("BACKUP_SRC", pbfail.BACKUP_SRC),
				gtOp0("GET_REQ", pbfail.GET_REQ), gtOp0("GET_RESP", pbfail.GET_RESP), gtOp0("PUT_REQ", pbfail.PUT_REQ), gtOp0("PUT_RESP", pbfail.PUT_RESP),
				gtOp0("ACK_MSG", pbfail.ACK_MSG), gtOp0("KEY1", pbfail.KEY1), gtOp0("VALUE1", pbfail.VALUE1), gtOp0("TEMP_VAL", pbfail.TEMP_VAL)}})
	}
	for _, c := range [][3]int{{1, 0, 0}, {3, 2, 1}, {2, 0, 3}, {4, 3, 3}} {
		out = append(out, GotestsOpPair{Pair: "gogen/bug_167",
			Constants: []string{fmt.Sprintf("NUM_REPLICAS = %d", c[0]), fmt.Sprintf("NUM_PUT_CLIENTS = %d", c[1]), fmt.Sprintf("NUM_GET_CLIENTS = %d", c[2]),
				"EXPLORE_FAIL = TRUE", "GET_CLIENT_RUN = TRUE", "PUT_CLIENT_RUN = TRUE"},
			Config: []distsys.MPCalContextConfigFn{distsys.DefineConstantValue("NUM_REPLICAS", N(c[0])), distsys.DefineConstantValue("NUM_PUT_CLIENTS", N(c[1])),
				distsys.DefineConstantValue("NUM_GET_CLIENTS", N(c[2])), distsys.DefineConstantValue("EXPLORE_FAIL", B(true)),
				distsys.DefineConstantValue("GET_CLIENT_RUN", B(true)), distsys.DefineConstantValue("PUT_CLIENT_RUN", B(true))},
			Ops: []GotestsOp{gtOp0("NUM_NODES", bug167.NUM_NODES), gtOp0("CLIENT_SRC", bug167.CLIENT_SRC), gtOp0("PRIMARY_SRC", bug167.PRIMARY_SRC), gtOp0("BACKUP_SRC", bug167.BACKUP_SRC),
				gtOp0("GET_REQ", bug167.GET_REQ), gtOp0("GET_RESP", bug167.GET_RESP), gtOp0("PUT_REQ", bug167.PUT_REQ), gtOp0("PUT_RESP", bug167.PUT_RESP),
				gtOp0("SYNC_REQ", bug167.SYNC_REQ), gtOp0("SYNC_RESP", bug167.SYNC_RESP), gtOp0("REQ_INDEX", bug167.REQ_INDEX), gtOp0("RESP_INDEX", bug167.RESP_INDEX),
				gtOp0("ACK_MSG_BODY", bug167.ACK_MSG_BODY), gtOp0("KEY1", bug167.KEY1), gtOp0("VALUE1", bug167.VALUE1), gtOp0("NODE_SET", bug167.NODE_SET),
				gtOp0("REPLICA_SET", bug167.REPLICA_SET), gtOp0("PUT_CLIENT_SET", bug167.PUT_CLIENT_SET), gtOp0("GET_CLIENT_SET", bug167.GET_CLIENT_SET),
				gtOp0("MSG_INDEX_SET", bug167.MSG_INDEX_SET), gtOp0("KEY_SET", bug167.KEY_SET), gtOp0("VALUE_SET", bug167.VALUE_SET), gtOp0("NULL", bug167.NULL)}})
	}
	return out
}

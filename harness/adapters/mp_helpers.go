package adapters

// Helpers shared by the adapters of the message-passing systems (dqueue, loadbalancer, proxy).
// Every identifier carries the prefix "mp" so that adapter files written by others cannot collide.

import (
	"fmt"
	"os"
	"os/exec"
	"path/filepath"
	"sort"
	"strconv"
	"strings"
	"sync"

	. "verifh/simsched"

	"github.com/DistCompiler/pgo/distsys"
	"github.com/DistCompiler/pgo/distsys/tla"
)

// ---- TCPChannel mapping macro (dqueue.tla, load_balancer.tla) ----
//   read  { await Len($variable) > 0; with (msg = Head($variable)) { $variable := Tail($variable); yield msg; } }
//   write { await Len($variable) < BUFFER_SIZE; yield Append($variable, $value); }

func mpTCPRead(_ distsys.ArchetypeInterface, _ []tla.Value, c tla.Value) (tla.Value, tla.Value, error) {
	if c.AsTuple().Len() == 0 {
		return c, c, ErrAbort
	}
	return tla.ModuleTail(c), tla.ModuleHead(c), nil
}

func mpTCPWrite(bufferSize int, obs map[string]int) WR {
	return func(_ distsys.ArchetypeInterface, _ []tla.Value, c, v tla.Value) (tla.Value, error) {
		if c.AsTuple().Len() >= bufferSize {
			if obs != nil {
				obs["attempts_blocked_on_full_buffer"]++
			}
			return c, ErrAbort
		}
		return tla.ModuleAppend(c, v), nil
	}
}

// mpAfter returns the whole variable as it will be once the cell at path holds newCell.
func mpAfter(st *Store, v string, path []tla.Value, newCell tla.Value) tla.Value {
	if len(path) == 0 {
		return newCell
	}
	return Except(st.Cur[v], newCell, path...)
}

// mpSet assigns another Store variable from inside a mapping macro (the translation's temporaries, harness
// counters). It goes through an MRes so that the Store records the variable as changed by the attempt in
// flight (commit/rollback) — assigning Store.Cur directly would be neither committed nor rolled back.
func mpSet(st *Store, iface distsys.ArchetypeInterface, name string, v tla.Value) {
	if err := M(st, name, 0, PlainR, PlainW).WriteValue(iface, v); err != nil {
		panic(err)
	}
}

// mpSeq lists the elements of a TLA+ sequence.
func mpSeq(t tla.Value) []tla.Value { return TupleElems(t) }

// mpAssertErr builds the error an `assert` inside a mapping macro raises.
func mpAssertErr(format string, a ...any) error {
	return fmt.Errorf("%w: %s", distsys.ErrAssertionFailed, fmt.Sprintf(format, a...))
}

// ---- locals of single-process archetypes ----
// For `fair process (P = Id)` PlusCal declares the process's variables as plain variables, not as functions
// over the process set, which Sched.TLAState cannot render from Proc.Locals. mpMirror copies the Go locals of
// one process into plain Store variables whenever an attempt of that process commits (Store commit happens
// inside the attempt's commit phase, when the local resources already hold their final values).
type mpMirror struct {
	st   *Store
	s    *Sched
	p    *Proc
	vars map[string]string // Go local name -> Store variable
}

func (m *mpMirror) AuxAbort() {}
func (m *mpMirror) AuxCommit() {
	if m.p == nil || m.s.Current() != m.p {
		return
	}
	m.sync()
}

func (m *mpMirror) sync() {
	for g, t := range m.vars {
		v := m.p.Local(g).StripVClock()
		m.st.Committed[t] = v
		m.st.Cur[t] = v
	}
}

// check reports the mirrored variables that do not hold the Go local's value (harness self-check).
func (m *mpMirror) check() string {
	for g, t := range m.vars {
		a, b := m.p.Local(g).StripVClock(), m.st.Committed[t]
		if a.String() != b.String() {
			return fmt.Sprintf("mirror of %s.%s out of date: local %s, store %s", m.p.Arch.Name, g, a.String(), b.String())
		}
	}
	return ""
}

// ---- resources whose index is not a key of a Store function ----
// mpIdxRoot is a map-like root resource: Commit/Abort go to the Store through the embedded MRes (bound to a
// variable that is never changed through it); Index builds the leaf for the given index.
type mpIdxRoot struct {
	*MRes
	leaf func(idx tla.Value) *MRes
}

func (r *mpIdxRoot) Index(_ distsys.ArchetypeInterface, i tla.Value) (distsys.ArchetypeResource, error) {
	return r.leaf(i), nil
}
func (r *mpIdxRoot) ReadValue(distsys.ArchetypeInterface) (tla.Value, error) {
	return tla.Value{}, distsys.ErrArchetypeResourceMapReadWrite
}
func (r *mpIdxRoot) WriteValue(distsys.ArchetypeInterface, tla.Value) error {
	return distsys.ErrArchetypeResourceMapReadWrite
}

// ---- labels ----

// ArchetypeLabels lists the labels of the processes' archetypes (without the Done pseudo-labels), sorted.
func ArchetypeLabels(procs []*Proc) []string {
	seen := map[string]bool{}
	var out []string
	for _, p := range procs {
		pre := p.Arch.Name + "."
		for l := range p.Arch.JumpTable {
			if strings.HasPrefix(l, pre) && !strings.HasSuffix(l, ".Done") && !seen[l] {
				seen[l] = true
				out = append(out, l)
			}
		}
	}
	sort.Strings(out)
	return out
}

// ---- specs whose TLA+ translation block has to be regenerated from their own PlusCal block ----

var (
	mpGenMu   sync.Mutex
	mpGenDir  string
	mpGenDone = map[string]string{}
	mpGenErr  = map[string]error{}
)

func mpScratchBase() string {
	if b := os.Getenv("VERIF_SCRATCH"); b != "" {
		return b
	}
	return os.TempDir()
}

// RegeneratedSpec copies a shipped .tla file (path relative to the repository) into a per-process scratch
// directory and re-runs the PlusCal translator on it, so that the TLA+ translation block corresponds to the
// file's own `--algorithm` block (which PGo generated from the MPCal source). Used where the shipped
// translation block is stale. The result is cached per process; call CleanupGenerated when done.
func RegeneratedSpec(rel string) (string, error) {
	mpGenMu.Lock()
	defer mpGenMu.Unlock()
	if p, ok := mpGenDone[rel]; ok {
		return p, mpGenErr[rel]
	}
	if mpGenDir == "" {
		base := mpScratchBase()
		// sweep directories left behind by processes that no longer exist
		if ents, err := os.ReadDir(base); err == nil {
			for _, e := range ents {
				if pidStr, ok := strings.CutPrefix(e.Name(), "verif-adapters-gen-"); ok {
					if pid, err := strconv.Atoi(pidStr); err == nil && pid != os.Getpid() {
						if _, err := os.Stat(fmt.Sprintf("/proc/%d", pid)); os.IsNotExist(err) {
							os.RemoveAll(filepath.Join(base, e.Name()))
						}
					}
				}
			}
		}
		mpGenDir = filepath.Join(base, fmt.Sprintf("verif-adapters-gen-%d", os.Getpid()))
		if err := os.MkdirAll(mpGenDir, 0o755); err != nil {
			mpGenDir = ""
			return "", err
		}
	}
	fail := func(err error) (string, error) {
		mpGenDone[rel], mpGenErr[rel] = "", err
		return "", err
	}
	buf, err := os.ReadFile(repoPath(rel))
	if err != nil {
		return fail(err)
	}
	sub, err := os.MkdirTemp(mpGenDir, "spec-")
	if err != nil {
		return fail(err)
	}
	dst := filepath.Join(sub, filepath.Base(rel))
	if err := os.WriteFile(dst, buf, 0o644); err != nil {
		return fail(err)
	}
	cmd := exec.Command("pcal", "-nocfg", filepath.Base(rel))
	cmd.Dir = sub
	out, err := cmd.CombinedOutput()
	if err != nil || !strings.Contains(string(out), "Translation completed") {
		return fail(fmt.Errorf("pcal %s: %v: %s", rel, err, mpTail(string(out), 600)))
	}
	mpGenDone[rel] = dst
	return dst, nil
}

// CleanupGenerated removes what RegeneratedSpec created in this process.
func CleanupGenerated() {
	mpGenMu.Lock()
	defer mpGenMu.Unlock()
	if mpGenDir != "" {
		os.RemoveAll(mpGenDir)
	}
	mpGenDir = ""
	mpGenDone = map[string]string{}
	mpGenErr = map[string]error{}
}

func mpTail(s string, n int) string {
	if len(s) > n {
		return s[len(s)-n:]
	}
	return s
}

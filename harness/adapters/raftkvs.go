package adapters

import (
	"bytes"
	"encoding/gob"
	"fmt"
	"math/rand"
	"sort"
	"strings"
	"time"

	. "verifh/simsched"

	"github.com/DistCompiler/pgo/distsys"
	"github.com/DistCompiler/pgo/distsys/resources"
	"github.com/DistCompiler/pgo/distsys/tla"
	"github.com/DistCompiler/pgo/distsys/trace"
	"github.com/DistCompiler/pgo/systems/raftkvs"
)

// RaftOpts configures a simulated raftkvs system.
type RaftOpts struct {
	NS, NC, MaxNodeFail int
	BufferSize          int
	FIFO                bool // per-link FIFO delivery (the mailboxes' guarantee; C08/C09). false = the spec's bag (C02).
	Exact               bool // requests drawn from the spec's AllReqs; false = unique Put values over Keys keys
	Keys                int
	PutPct              uint
	// probabilities (percent) that the nondeterministic environment reads yield TRUE
	BiasFD, BiasLeaderTimeout, BiasClientTimeout uint
	CrashAfter                                   int // commits before a crasher may be scheduled
	MaxOps                                       int // per client, 0 = unbounded (exact=false only)
	// RealShared binds the spec's plain per-server variables (state, currentTerm, log, commitIndex, nextIndex,
	// matchIndex, votedFor, votesResponded, votesGranted, leader, sm, smDomain) the way bootstrap/server.go does:
	// one real LocalSharedManager per (variable, server) behind an IncMap, shared by the server's five archetypes.
	// The Store copies are refreshed from the managers after every commit, and compared after every abort.
	RealShared bool
}

// HistOp is one client operation of the recorded history (logical times = commit numbers).
type HistOp struct {
	Client    int
	Put       bool
	Key, Val  string // Val: value written (Put) or returned (Get)
	OK        bool   // Get: found
	Call, Ret int64  // Ret = -1: no response recorded (still open)
	Retries   []int64
	ReqIdx    int
}

// RaftSim is a raftkvs Sim plus its client history.
type RaftSim struct {
	*Sim
	Opts RaftOpts
	hist *raftHist
	// Stats observed by the monitors.
	*RaftStats
	// LinkDelay, if set, holds back the messages of link src -> dest while it returns true (FIFO mode only):
	// a partition realised as delay, which reliable links allow for any finite time.
	LinkDelay func(dest, src int) bool
}

// History returns the recorded client operations (completed ones and open ones).
func (r *RaftSim) History() []HistOp {
	var out []HistOp
	out = append(out, r.hist.committed.done...)
	var cs []int
	for c := range r.hist.committed.pending {
		cs = append(cs, c)
	}
	sort.Ints(cs)
	for _, c := range cs {
		p := *r.hist.committed.pending[c]
		p.Ret = -1
		out = append(out, p)
	}
	return out
}

type histState struct {
	pending  map[int]*HistOp
	done     []HistOp
	putCount map[int]int
	opCount  map[int]int
}

func (h histState) clone() histState {
	c := histState{pending: map[int]*HistOp{}, putCount: map[int]int{}, opCount: map[int]int{}}
	for k, v := range h.pending {
		cp := *v
		cp.Retries = append([]int64(nil), v.Retries...)
		c.pending[k] = &cp
	}
	c.done = append([]HistOp(nil), h.done...)
	for k, v := range h.putCount {
		c.putCount[k] = v
	}
	for k, v := range h.opCount {
		c.opCount[k] = v
	}
	return c
}

// raftHist shadows the client boundary; it commits/aborts with the store (Aux).
type raftHist struct {
	cur, committed histState
	touched        bool
}

func (h *raftHist) AuxCommit() {
	if h.touched {
		h.committed = h.cur.clone()
		h.touched = false
	}
}
func (h *raftHist) AuxAbort() {
	if h.touched {
		h.cur = h.committed.clone()
		h.touched = false
	}
}

// fifoShadow keeps, per destination, the arrival order of the messages currently in the bag.
type fifoShadow struct {
	cur, committed map[int32][]tla.Value
	touched        bool
}

func cpOrd(m map[int32][]tla.Value) map[int32][]tla.Value {
	r := map[int32][]tla.Value{}
	for k, v := range m {
		r[k] = append([]tla.Value(nil), v...)
	}
	return r
}
func (f *fifoShadow) AuxCommit() {
	if f.touched {
		f.committed = cpOrd(f.cur)
		f.touched = false
	}
}
func (f *fifoShadow) AuxAbort() {
	if f.touched {
		f.cur = cpOrd(f.committed)
		f.touched = false
	}
}

func init() {
	Register(Factory{Name: "raftkvs", Tags: []string{"c02"}, New: func(seed int64, exact bool, rng *rand.Rand) *Sim {
		o := RaftOpts{NS: 1 + rng.Intn(3), NC: 1 + rng.Intn(2), MaxNodeFail: 0, BufferSize: 3, FIFO: false, Exact: true,
			BiasFD: 5, BiasLeaderTimeout: 5, BiasClientTimeout: 10, CrashAfter: 40}
		if o.NS == 3 {
			o.MaxNodeFail = rng.Intn(2)
		}
		o.RealShared = seed%2 == 0 // every second run with the production LocalShared/IncMap binding of the plain variables
		return Raftkvs(seed, o).Sim
	}})
}

// Raftkvs builds the generated Raft KV store: per server the five archetypes, clients, crashers.
func Raftkvs(seed int64, o RaftOpts) *RaftSim {
	if o.BufferSize == 0 {
		o.BufferSize = 3
	}
	if o.Keys == 0 {
		o.Keys = 1
	}
	if o.PutPct == 0 {
		o.PutPct = 60
	}
	NS, NC := o.NS, o.NC
	allStrings := Set(S("s1"), S("s2"))
	consts := []distsys.MPCalContextConfigFn{
		distsys.DefineConstantValue("ExploreFail", B(true)), distsys.DefineConstantValue("Debug", B(false)),
		distsys.DefineConstantValue("NumServers", N(NS)), distsys.DefineConstantValue("NumClients", N(NC)),
		distsys.DefineConstantValue("BufferSize", N(o.BufferSize)), distsys.DefineConstantValue("MaxTerm", N(1000)),
		distsys.DefineConstantValue("MaxCommitIndex", N(1000)), distsys.DefineConstantValue("MaxNodeFail", N(o.MaxNodeFail)),
		distsys.DefineConstantValue("LogConcat", N(2)), distsys.DefineConstantValue("LogPop", N(1)),
		distsys.DefineConstantValue("LeaderTimeoutReset", B(true)), distsys.DefineConstantValue("NumRequests", N(1)),
		distsys.DefineConstantValue("AllStrings", allStrings),
	}
	ci := distsys.NewMPCalContextWithoutArchetype(consts...).IFace()
	srvSet, nodeSet, clientSet := raftkvs.ServerSet(ci), raftkvs.NodeSet(ci), raftkvs.ClientSet(ci)
	st := NewStore()
	st.Init("network", Fn(nodeSet, K(Rec("queue", EmptyBag, "enabled", B(true)))))
	st.Init("fd", Fn(srvSet, K(B(false))))
	st.Init("state", Fn(srvSet, K(raftkvs.Follower(ci))))
	st.Init("currentTerm", Fn(srvSet, K(N(1))))
	st.Init("commitIndex", Fn(srvSet, K(N(0))))
	st.Init("nextIndex", Fn(srvSet, K(Fn(srvSet, K(N(1))))))
	st.Init("matchIndex", Fn(srvSet, K(Fn(srvSet, K(N(0))))))
	st.Init("log", Fn(srvSet, K(Tup())))
	st.Init("plog", Fn(srvSet, K(Tup())))
	st.Init("votedFor", Fn(srvSet, K(N(0))))
	st.Init("votesResponded", Fn(srvSet, K(Set())))
	st.Init("votesGranted", Fn(srvSet, K(Set())))
	st.Init("leader", Fn(srvSet, K(N(0))))
	st.Init("sm", Fn(srvSet, K(tla.MakeRecord(nil))))
	st.Init("smDomain", Fn(srvSet, K(Set())))
	st.Init("leaderTimeout", B(true))
	st.Init("appendEntriesCh", Fn(srvSet, K(Tup())))
	if NS > 1 {
		st.Init("becomeLeaderCh", Fn(srvSet, K(Tup())))
	} else {
		st.Init("becomeLeaderCh", Fn(srvSet, K(Tup(B(true)))))
	}
	st.Init("reqCh", tla.Value{})
	st.Init("respCh", tla.Value{})
	st.Init("timeout", Fn(clientSet, K(B(false))))
	off := func(k int) func(tla.Value) tla.Value {
		return func(i tla.Value) tla.Value { return N(int(i.AsNumber()) - k*NS) }
	}
	st.Init("requestVoteSrvId", Fn(raftkvs.ServerRequestVoteSet(ci), off(1)))
	st.Init("appendEntriesSrvId", Fn(raftkvs.ServerAppendEntriesSet(ci), off(2)))
	st.Init("advanceCommitIndexSrvId", Fn(raftkvs.ServerAdvanceCommitIndexSet(ci), off(3)))
	st.Init("becomeLeaderSrvId", Fn(raftkvs.ServerBecomeLeaderSet(ci), off(4)))
	st.Init("crasherSrvId", Fn(raftkvs.ServerCrasherSet(ci), off(5)))

	s := NewSched(seed, st)
	fifo := &fifoShadow{cur: map[int32][]tla.Value{}, committed: map[int32][]tla.Value{}}
	hist := &raftHist{}
	hist.cur = histState{pending: map[int]*HistOp{}, putCount: map[int]int{}, opCount: map[int]int{}}
	hist.committed = hist.cur.clone()
	st.Aux = append(st.Aux, fifo, hist)
	rs := &RaftSim{Opts: o, hist: hist}

	bias := map[string]uint{"fd": o.BiasFD, "lt": o.BiasLeaderTimeout, "to": o.BiasClientTimeout}
	coinR := func(id string) RD {
		return func(iface distsys.ArchetypeInterface, _ []tla.Value, c tla.Value) (tla.Value, tla.Value, error) {
			return c, B(iface.NextFairnessCounter("coin."+id, 100) < bias[id]), nil
		}
	}
	fifoR := func(iface distsys.ArchetypeInterface, path []tla.Value, c tla.Value) (tla.Value, tla.Value, error) {
		if !Fld(c, "enabled").AsBool() {
			return c, c, fmt.Errorf("%w: network enabled (ReliableFIFOLink read)", distsys.ErrAssertionFailed)
		}
		q := Fld(c, "queue")
		es := BagElems(q)
		if len(es) == 0 {
			return c, c, ErrAbort
		}
		var m tla.Value
		if o.FIFO {
			dest := path[0].AsNumber()
			var srcs []int32
			seen := map[int32]bool{}
			for _, x := range fifo.cur[dest] {
				if sr := Fld(x, "msource").AsNumber(); !seen[sr] {
					seen[sr] = true
					if rs.LinkDelay != nil && rs.LinkDelay(int(dest), int(sr)) {
						continue
					}
					srcs = append(srcs, sr)
				}
			}
			if len(srcs) == 0 {
				return c, c, ErrAbort
			}
			pick := srcs[iface.NextFairnessCounter("net.src", uint(len(srcs)))]
			for i, x := range fifo.cur[dest] {
				if Fld(x, "msource").AsNumber() == pick {
					m = x
					fifo.cur[dest] = append(append([]tla.Value(nil), fifo.cur[dest][:i]...), fifo.cur[dest][i+1:]...)
					fifo.touched = true
					break
				}
			}
		} else {
			m = es[iface.NextFairnessCounter("net.msg", uint(len(es)))]
		}
		return Rec("queue", BagDel(q, m), "enabled", Fld(c, "enabled")), m, nil
	}
	fifoW := func(_ distsys.ArchetypeInterface, path []tla.Value, c, v tla.Value) (tla.Value, error) {
		if !Fld(c, "enabled").AsBool() || BagCard(Fld(c, "queue")) >= o.BufferSize {
			return c, ErrAbort
		}
		if o.FIFO {
			d := path[0].AsNumber()
			fifo.cur[d] = append(append([]tla.Value(nil), fifo.cur[d]...), v)
			fifo.touched = true
		}
		return Rec("queue", BagAdd(Fld(c, "queue"), v), "enabled", Fld(c, "enabled")), nil
	}
	toggleR := func(_ distsys.ArchetypeInterface, _ []tla.Value, c tla.Value) (tla.Value, tla.Value, error) {
		return c, Fld(c, "enabled"), nil
	}
	toggleW := func(_ distsys.ArchetypeInterface, _ []tla.Value, c, v tla.Value) (tla.Value, error) {
		return Rec("queue", Fld(c, "queue"), "enabled", v), nil
	}
	lenR := func(iface distsys.ArchetypeInterface, _ []tla.Value, c tla.Value) (tla.Value, tla.Value, error) {
		k := BagCard(Fld(c, "queue"))
		if o.FIFO {
			// the production resource reports the true number of pending messages or fewer; the spec allows any 0..k
			return c, N(int(iface.NextFairnessCounter("netlen", uint(k+1)))), nil
		}
		return c, N(int(iface.NextFairnessCounter("netlen", uint(k+1)))), nil
	}
	chanR := func(iface distsys.ArchetypeInterface, _ []tla.Value, c tla.Value) (tla.Value, tla.Value, error) {
		if iface.NextFairnessCounter("chan.read", 2) == 0 {
			if c.AsTuple().Len() == 0 {
				return c, c, ErrAbort
			}
			return tla.ModuleTail(c), tla.ModuleHead(c), nil
		}
		if c.AsTuple().Len() != 0 {
			return c, c, ErrAbort
		}
		return c, B(true), nil
	}
	chanW := func(_ distsys.ArchetypeInterface, _ []tla.Value, c, v tla.Value) (tla.Value, error) {
		return tla.ModuleAppend(c, v), nil
	}
	plogW := func(_ distsys.ArchetypeInterface, _ []tla.Value, c, v tla.Value) (tla.Value, error) {
		if Fld(v, "cmd").Equal(N(2)) {
			return tla.ModuleOSymbol(c, Fld(v, "entries")), nil
		}
		if Fld(v, "cmd").Equal(N(1)) {
			return tla.ModuleSubSeq(c, N(1), tla.ModuleMinusSymbol(tla.ModuleLen(c), Fld(v, "cnt"))), nil
		}
		return c, fmt.Errorf("%w: PersistentLog write with unknown cmd %s", distsys.ErrAssertionFailed, v.String())
	}
	keyName := func(i int) string { return fmt.Sprintf("k%d", i) }
	reqR := func(iface distsys.ArchetypeInterface, _ []tla.Value, c tla.Value) (tla.Value, tla.Value, error) {
		if o.Exact {
			all := Elems(raftkvs.AllReqs(iface))
			return c, all[iface.NextFairnessCounter("reqs", uint(len(all)))], nil
		}
		cl := int(iface.Self().AsNumber())
		hist.touched = true
		h := &hist.cur
		if o.MaxOps > 0 && h.opCount[cl] >= o.MaxOps {
			return c, c, ErrAbort // client has issued all its operations
		}
		h.opCount[cl]++
		key := keyName(int(iface.NextFairnessCounter("req.key", uint(o.Keys))))
		if iface.NextFairnessCounter("req.put", 100) < o.PutPct {
			h.putCount[cl]++
			v := fmt.Sprintf("c%d-%d", cl, h.putCount[cl])
			h.pending[cl] = &HistOp{Client: cl, Put: true, Key: key, Val: v, Call: int64(s.Steps + 1), ReqIdx: h.opCount[cl]}
			return c, Rec("type", S("put"), "key", S(key), "value", S(v)), nil
		}
		h.pending[cl] = &HistOp{Client: cl, Key: key, Call: int64(s.Steps + 1), ReqIdx: h.opCount[cl]}
		return c, Rec("type", S("get"), "key", S(key)), nil
	}
	respW := func(iface distsys.ArchetypeInterface, _ []tla.Value, _ tla.Value, v tla.Value) (tla.Value, error) {
		if !o.Exact {
			cl := int(iface.Self().AsNumber())
			hist.touched = true
			h := &hist.cur
			if p := h.pending[cl]; p != nil {
				op := *p
				mr := Fld(v, "mresponse")
				if !op.Put {
					op.OK = Fld(mr, "ok").AsBool()
					if val := Fld(mr, "value"); val.IsString() {
						op.Val = val.AsString()
					}
				}
				op.Ret = int64(s.Steps + 1)
				h.done = append(h.done, op)
				delete(h.pending, cl)
			}
		}
		return v, nil
	}

	M1 := func(v string, r RD, w WR) distsys.ArchetypeResource { return M(st, v, 1, r, w) }
	plainVars := []string{"state", "currentTerm", "log", "commitIndex", "nextIndex", "matchIndex", "votedFor", "votesResponded", "votesGranted", "leader", "sm", "smDomain"}
	isPlain := map[string]bool{}
	mgrs := map[string]map[int]*resources.LocalSharedManager{}
	if o.RealShared {
		for _, v := range plainVars {
			isPlain[v] = true
			mgrs[v] = map[int]*resources.LocalSharedManager{}
			for i := 1; i <= NS; i++ {
				mgrs[v][i] = resources.NewLocalSharedManager(st.Get(v).ApplyFunction(N(i)), resources.WithLocalSharedResourceTimeout(time.Second))
			}
		}
	}
	type cached struct {
		raw []byte
		val tla.Value
	}
	cache := map[string]map[int]*cached{}
	readMgrs := func(v string) tla.Value {
		if cache[v] == nil {
			cache[v] = map[int]*cached{}
		}
		return Fn(srvSet, func(i tla.Value) tla.Value {
			k := int(i.AsNumber())
			buf, err := mgrs[v][k].MakeLocalShared().GetState()
			if err != nil {
				panic(err)
			}
			if c := cache[v][k]; c != nil && bytes.Equal(c.raw, buf) {
				return c.val // unchanged since the last look: skip the decode
			}
			var val tla.Value
			if err := gob.NewDecoder(bytes.NewReader(buf)).Decode(&val); err != nil {
				panic(err)
			}
			cache[v][k] = &cached{raw: buf, val: val}
			return val
		})
	}
	serverRes := func() []distsys.MPCalContextConfigFn {
		p := func(name, v string, r RD, w WR) distsys.MPCalContextConfigFn {
			if isPlain[v] {
				ms := mgrs[v]
				return distsys.EnsureArchetypeRefParam(name, resources.NewIncMap(func(index tla.Value) distsys.ArchetypeResource {
					return ms[int(index.AsNumber())].MakeLocalShared()
				}))
			}
			return distsys.EnsureArchetypeRefParam(name, M1(v, r, w))
		}
		return []distsys.MPCalContextConfigFn{
			p("net", "network", fifoR, fifoW), p("netLen", "network", lenR, NoW), p("netEnabled", "network", toggleR, toggleW),
			p("fd", "fd", coinR("fd"), PlainW), p("state", "state", PlainR, PlainW), p("currentTerm", "currentTerm", PlainR, PlainW),
			p("log", "log", PlainR, PlainW), p("plog", "plog", PlainR, plogW), p("commitIndex", "commitIndex", PlainR, PlainW),
			p("nextIndex", "nextIndex", PlainR, PlainW), p("matchIndex", "matchIndex", PlainR, PlainW), p("votedFor", "votedFor", PlainR, PlainW),
			p("votesResponded", "votesResponded", PlainR, PlainW), p("votesGranted", "votesGranted", PlainR, PlainW),
			p("leader", "leader", PlainR, PlainW), p("sm", "sm", PlainR, PlainW), p("smDomain", "smDomain", PlainR, PlainW),
			distsys.EnsureArchetypeRefParam("leaderTimeout", M(st, "leaderTimeout", 0, coinR("lt"), PlainW)),
			p("appendEntriesCh", "appendEntriesCh", chanR, chanW), p("becomeLeaderCh", "becomeLeaderCh", chanR, chanW),
		}
	}
	sv := func(id int) []distsys.MPCalContextConfigFn {
		return append(append(append([]distsys.MPCalContextConfigFn{}, consts...), serverRes()...), distsys.EnsureArchetypeValueParam("srvId", N(id)))
	}
	for i := 1; i <= NS; i++ {
		g := fmt.Sprintf("srv%d", i)
		s.Add(N(i), raftkvs.AServer, map[string]string{"idx": "idx", "m": "m", "srvId": "srvId"}, g, sv(i)...)
		s.Add(N(i+NS), raftkvs.AServerRequestVote, map[string]string{"idx": "idx0", "srvId": "srvId0"}, g, sv(i)...)
		s.Add(N(i+2*NS), raftkvs.AServerAppendEntries, map[string]string{"idx": "idx1", "srvId": "srvId1"}, g, sv(i)...)
		s.Add(N(i+3*NS), raftkvs.AServerAdvanceCommitIndex, map[string]string{"newCommitIndex": "newCommitIndex", "srvId": "srvId2"}, g, sv(i)...)
		s.Add(N(i+4*NS), raftkvs.AServerBecomeLeader, map[string]string{"srvId": "srvId3"}, g, sv(i)...)
	}
	for c := 1; c <= NC; c++ {
		self := N(6*NS + c)
		toRes, _ := M(st, "timeout", 1, coinR("to"), NoW).Index(distsys.ArchetypeInterface{}, self)
		cfg := append(append([]distsys.MPCalContextConfigFn{}, consts...),
			distsys.EnsureArchetypeRefParam("net", M1("network", fifoR, fifoW)),
			distsys.EnsureArchetypeRefParam("netLen", M1("network", lenR, NoW)),
			distsys.EnsureArchetypeRefParam("fd", M1("fd", coinR("fd"), PlainW)),
			distsys.EnsureArchetypeRefParam("reqCh", M(st, "reqCh", 0, reqR, NoW)),
			distsys.EnsureArchetypeRefParam("respCh", M(st, "respCh", 0, PlainR, respW)),
			distsys.EnsureArchetypeRefParam("timeout", toRes))
		s.Add(self, raftkvs.AClient, map[string]string{"leader": "leader0", "req": "req", "resp": "resp", "reqIdx": "reqIdx"}, "client", cfg...)
	}
	for f := 1; f <= o.MaxNodeFail; f++ {
		cfg := append(append([]distsys.MPCalContextConfigFn{}, consts...),
			distsys.EnsureArchetypeValueParam("srvId", N(f)),
			distsys.EnsureArchetypeRefParam("netEnabled", M1("network", toggleR, toggleW)),
			distsys.EnsureArchetypeRefParam("fd", M1("fd", coinR("fd"), PlainW)))
		s.Add(N(5*NS+f), raftkvs.AServerCrasher, map[string]string{"srvId": "srvId4"}, "crasher", cfg...)
	}
	crashAfter := o.CrashAfter
	s.Eligible = func(p *Proc, step int) bool {
		if p.Arch.Name == "AServerCrasher" && step < crashAfter {
			return false
		}
		return true
	}

	sim := &Sim{Name: "raftkvs", Sched: s, SpecFiles: []string{repoPath("systems/raftkvs/raftkvs.tla")}, Module: "raftkvs",
		Constants: []string{"ExploreFail = TRUE", "Debug = FALSE", fmt.Sprintf("NumServers = %d", NS), fmt.Sprintf("NumClients = %d", NC),
			fmt.Sprintf("BufferSize = %d", o.BufferSize), "MaxTerm = 1000", "MaxCommitIndex = 1000", fmt.Sprintf("MaxNodeFail = %d", o.MaxNodeFail),
			"LogConcat = 2", "LogPop = 1", "LeaderTimeoutReset = TRUE", "NumRequests = 1", `AllStrings = {"s1", "s2"}`},
		// LeaderCompleteness as written in raftkvs.tla is stronger than the property (see the monitor) and is not handed to TLC
		Invariants: []string{"ElectionSafety", "LogMatching", "StateMachineSafety", "ApplyLogOK", "plogOK"},
		Params:     map[string]any{"NumServers": NS, "NumClients": NC, "MaxNodeFail": o.MaxNodeFail, "fifo": o.FIFO, "exact": o.Exact, "BufferSize": o.BufferSize},
		MaxSteps:   400}
	s.IdleRounds = 12
	rs.Sim = sim
	if o.RealShared {
		sim.Params["real_shared"] = true
		sim.Sync = func() {
			for _, v := range plainVars {
				val := readMgrs(v)
				st.Cur[v], st.Committed[v] = val, val
			}
		}
		sim.AfterAbort = func(p *Proc, label string) []Violation {
			var vs []Violation
			for _, v := range plainVars {
				if now := readMgrs(v); !now.Equal(st.Committed[v]) {
					vs = append(vs, Violation{Key: "C02:raftkvs:aborted-attempt-changed-state:" + v, Desc: fmt.Sprintf("an aborted attempt of %s(%s) at %s left %s = %s, last committed %s (a step the spec disables must have no effect)", p.Arch.Name, p.Self.String(), label, v, now.String(), st.Committed[v].String())})
				}
			}
			return vs
		}
	}
	mon := NewRaftMonitor(NS, st.Get, "C08:sim:", true)
	rs.RaftStats = mon.Stats
	inner := func(step Step) []Violation {
		return mon.Check(fmt.Sprintf("after commit %d (%s by %s)", step.N, step.Label, step.Proc.Self.String()))
	}
	sim.Monitor = func(step Step) []Violation {
		// client-side retries: every committed sndReq that actually wrote to the network is one transmission
		if step.Label == "AClient.sndReq" && !o.Exact {
			sent := false
			for _, e := range step.Elems {
				if w, ok := e.(trace.WriteElement); ok && w.Name == "net" {
					sent = true
				}
			}
			if sent {
				cl := int(step.Proc.Self.AsNumber())
				for _, h := range []*histState{&hist.cur, &hist.committed} {
					if p := h.pending[cl]; p != nil {
						p.Retries = append(p.Retries, int64(step.N))
					}
				}
			}
		}
		return inner(step)
	}
	return rs
}

// ---- Go-side monitors of the Raft safety invariants (state forms as in raftkvs.tla + history forms) ----

type rentry struct {
	term int
	v    tla.Value
}

func (e rentry) same(o rentry) bool { return e.v.Equal(o.v) }

func readLog(v tla.Value) []rentry {
	var out []rentry
	for _, e := range TupleElems(v) {
		out = append(out, rentry{term: int(Fld(e, "term").AsNumber()), v: e})
	}
	return out
}

// RaftStats is what the monitors observed.
type RaftStats struct {
	Leaders     map[int]int // term -> leader
	MaxTerm     int
	Truncations int
	Crashes     int
	Applied     int
}

// RaftMonitor evaluates the Raft safety invariants (state forms as written in raftkvs.tla plus the
// history-strengthened forms, all of which are insensitive to how commit points of different servers
// interleave) on a view of the per-server variables.
type RaftMonitor struct {
	Stats *RaftStats
	Check func(where string) []Violation
}

// NewRaftMonitor builds a monitor over get(variable) = the function ServerSet -> value; prefix is prepended
// to violation keys ("C08:sim:" / "C08:cluster:"). withNetwork: the view is the full simulated state (it has
// network[i].enabled and plog as a sequence; the spec-internal plogOK is only evaluated there).
func NewRaftMonitor(NS int, get func(string) tla.Value, prefix string, withNetwork bool) *RaftMonitor {
	rs := &RaftStats{Leaders: map[int]int{}}
	m := &RaftMonitor{Stats: rs}
	// history state
	entryAt := map[[2]int]rentry{}  // (index, term) -> entry, over all logs ever held
	committedAt := map[int]rentry{} // index -> entry, over all servers and times (entries at or below a commitIndex)
	commitTerm := map[int]int{}     // index -> term in which the entry was first seen committed (term of the first server whose commitIndex covered it)
	prevLog := make([][]rentry, NS+1)
	prevState := make([]string, NS+1)
	prevEnabled := make([]bool, NS+1)
	for i := range prevEnabled {
		prevEnabled[i] = true
	}
	first := true
	m.Check = func(where string) []Violation {
		var vs []Violation
		add := func(key, f string, a ...any) {
			vs = append(vs, Violation{Key: strings.Replace(key, "C08:sim:", prefix, 1), Desc: where + ": " + fmt.Sprintf(f, a...)})
		}
		logs := make([][]rentry, NS+1)
		state := make([]string, NS+1)
		term := make([]int, NS+1)
		ci := make([]int, NS+1)
		for i := 1; i <= NS; i++ {
			logs[i] = readLog(get("log").ApplyFunction(N(i)))
			state[i] = get("state").ApplyFunction(N(i)).AsString()
			term[i] = int(get("currentTerm").ApplyFunction(N(i)).AsNumber())
			ci[i] = int(get("commitIndex").ApplyFunction(N(i)).AsNumber())
			if term[i] > rs.MaxTerm {
				rs.MaxTerm = term[i]
			}
			if withNetwork {
				en := Fld(get("network").ApplyFunction(N(i)), "enabled").AsBool()
				if prevEnabled[i] && !en {
					rs.Crashes++
				}
				prevEnabled[i] = en
			}
		}
		// ElectionSafety (state form) + unique leader per term over the whole run
		for i := 1; i <= NS; i++ {
			if state[i] == "leader" {
				if l, ok := rs.Leaders[term[i]]; ok && l != i {
					add("C08:sim:two-leaders-in-term", "servers %d and %d are both leader of term %d (history form)", l, i, term[i])
				}
				rs.Leaders[term[i]] = i
				for j := i + 1; j <= NS; j++ {
					if state[j] == "leader" && term[j] == term[i] {
						add("C08:sim:ElectionSafety", "servers %d and %d are leaders in term %d", i, j, term[i])
					}
				}
			}
		}
		// LogMatching (state form) + unique entry per (index, term) over all logs ever held
		for i := 1; i <= NS; i++ {
			for k, e := range logs[i] {
				key := [2]int{k + 1, e.term}
				if old, ok := entryAt[key]; ok && !old.same(e) {
					add("C08:sim:two-entries-at-index-term", "log[%d][%d] = %s but another log held %s at the same index and term", i, k+1, e.v.String(), old.v.String())
				} else if !ok {
					entryAt[key] = e
				}
			}
			for j := i + 1; j <= NS; j++ {
				n := len(logs[i])
				if len(logs[j]) < n {
					n = len(logs[j])
				}
				for k := n - 1; k >= 0; k-- {
					if logs[i][k].term == logs[j][k].term {
						for q := 0; q <= k; q++ {
							if !logs[i][q].same(logs[j][q]) {
								add("C08:sim:LogMatching", "log[%d] and log[%d] agree on the term at index %d but differ at index %d", i, j, k+1, q+1)
								break
							}
						}
						break // prefixes below k are covered
					}
				}
			}
		}
		// committed entries: unique per index over all servers and times; StateMachineSafety; LeaderCompleteness
		for i := 1; i <= NS; i++ {
			if ci[i] > len(logs[i]) {
				add("C08:sim:commit-beyond-log", "commitIndex[%d] = %d exceeds Len(log) = %d", i, ci[i], len(logs[i]))
				continue
			}
			for k := 0; k < ci[i]; k++ {
				if old, ok := committedAt[k+1]; ok && !old.same(logs[i][k]) {
					add("C08:sim:two-committed-entries-at-index", "server %d holds %s at committed index %d, earlier committed there: %s", i, logs[i][k].v.String(), k+1, old.v.String())
				} else if !ok {
					committedAt[k+1] = logs[i][k]
					commitTerm[k+1] = term[i]
					rs.Applied++
				}
				// Leader Completeness as the property states it: an entry committed in term T is in the log of every
				// leader of a LATER term. (raftkvs.tla's state form compares with the entry's creation term instead,
				// which also blames a stale leader of an earlier term than the commit — legal in Raft: observed on a
				// real 5-server cluster, leader of term 18 stopped, entry of term 10 committed in term 19.)
				for j := 1; j <= NS; j++ {
					if state[j] == "leader" && term[j] > commitTerm[k+1] {
						if k >= len(logs[j]) || !logs[j][k].same(logs[i][k]) {
							add("C08:sim:LeaderCompleteness", "entry %s committed at index %d (first seen committed in term %d; held by server %d) is missing from the log of leader %d of the later term %d", logs[i][k].v.String(), k+1, commitTerm[k+1], i, j, term[j])
						}
					}
				}
			}
			for j := i + 1; j <= NS; j++ {
				if ci[i] == ci[j] {
					if !get("sm").ApplyFunction(N(i)).Equal(get("sm").ApplyFunction(N(j))) || !get("smDomain").ApplyFunction(N(i)).Equal(get("smDomain").ApplyFunction(N(j))) {
						add("C08:sim:ApplyLogOK", "servers %d and %d have commitIndex %d but different stores", i, j, ci[i])
					}
				}
			}
			if withNetwork && !get("log").ApplyFunction(N(i)).Equal(get("plog").ApplyFunction(N(i))) {
				add("C08:sim:plogOK", "log[%d] differs from the persistent log", i)
			}
		}
		// LeaderAppendOnly (action form) + truncation accounting
		if !first {
			for i := 1; i <= NS; i++ {
				shrunk := len(logs[i]) < len(prevLog[i])
				if !shrunk {
					for k := range prevLog[i] {
						if !prevLog[i][k].same(logs[i][k]) {
							shrunk = true
							break
						}
					}
				}
				if shrunk {
					rs.Truncations++
					if prevState[i] == "leader" && state[i] == "leader" {
						add("C08:sim:LeaderAppendOnly", "leader %d changed its log other than by appending", i)
					}
				}
			}
		}
		first = false
		copy(prevLog, logs)
		copy(prevState, state)
		return vs
	}
	return m
}

package adapters

// Adapter for general/ProcedureSpaghetti: archetype Arch1(ref e, f) instantiated four times
// (Pross1 = 1 with V1 via M; Pross2 = 2 with V1; Pross3 = 3 and Pross3Bis = 33 with V2); Pross4 = 4 and Pross5 = 5 are
// plain PlusCal processes without generated Go (they stay at their first label in every recorded state).
// The PlusCal back-end specialises every procedure per ref-argument instantiation:
//   Proc1(ref a, b) variables c  ->  Proc10(b) c0 [a=V1 via M]   Proc11(b0) c1 [a=V1]   Proc12(b1) c2 [a=V2]   Proc13(b2) c3 [a=c of Pross4]
//   Proc2(ref a_)                ->  Proc20 [V1 via M]           Proc21 [V1]            Proc22 [V2]            Proc23 [c]
// and pcal renames the clashing labels (Proc1lbl1_ / _P / _Pr / unrenamed for the last specialisation, same for
// Proc1lbl2, Proc2lbl1 and for Arch1lbl per process). Tables below were read off pcal's translation.

import (
	"math/rand"
	"regexp"
	"strings"

	. "verifh/simsched"

	"github.com/DistCompiler/pgo/distsys"
	"github.com/DistCompiler/pgo/distsys/tla"

	procspag "github.com/DistCompiler/pgo/test/files/general/ProcedureSpaghetti.tla.gotests"
)

func init() {
	Register(Factory{Name: "gotests/ProcedureSpaghetti", Tags: []string{"c02"}, New: func(seed int64, exact bool, rng *rand.Rand) *Sim {
		if seed%4 == 0 { // structural variants follow the seed so that consecutive seeds cover all of them
			return gtProcSpaghetti(seed, false, 0, 0)
		}
		return gtProcSpaghetti(seed, true, rng.Intn(200)-50, rng.Intn(200)-50)
	}})
}

var gtProcSpagRepairs = []gtRepair{{
	Stage: "tla",
	Why:   "artefact as translated by pcal is not loadable: the action of RecursiveProcRef0 (`call RecursiveProcRef0(); return;`, used only by the plain PlusCal process Pross5) contains an empty conjunct (SANY parse error); the empty conjunct was removed in scratch",
	Re:    regexp.MustCompile(`/\\[ \t]*\n([ \t]*/\\ pc' = \[pc EXCEPT !\[self\] = "RecursiveProclbl1"\])`),
	Repl:  "$1",
}}

func gtMRead(_ distsys.ArchetypeInterface, _ []tla.Value, c tla.Value) (tla.Value, tla.Value, error) {
	return c, tla.ModulePlusSymbol(c, N(1)), nil // yield $variable + 1
}

func gtMWrite(_ distsys.ArchetypeInterface, _ []tla.Value, _ tla.Value, v tla.Value) (tla.Value, error) {
	return tla.ModuleMinusSymbol(v, N(1)), nil // yield $value - 1
}

// gtProcSpaghetti: numeric=false starts in the artefact's Init (V1 = V2 = defaultInitValue: every arithmetic label
// fails to evaluate on both sides); numeric=true starts with V1, V2 bound to integers the way the repository's own
// Go test binds e (V1, V2 have no initialiser: they are environment-provided) and is validated with Init relaxed.
func gtProcSpaghetti(seed int64, numeric bool, v1, v2 int) *Sim {
	sp := GotestsArtefact("general/ProcedureSpaghetti")
	if sp.Err != nil {
		return gtSpecFail("gotests/ProcedureSpaghetti", sp)
	}
	st := NewStore()
	if numeric {
		st.Init("V1", N(v1))
		st.Init("V2", N(v2))
	} else {
		st.Init("V1", gtDefault)
		st.Init("V2", gtDefault)
	}
	s := NewSched(seed, st)
	calls := gtCallees(sp.Text)
	type inst struct {
		self       int
		name       string
		v          string
		mapped     bool
		f          int
		lbl        string // pcal's name of Arch1lbl in this process
		sfx        string // suffix pcal gave the procedure labels of this process's specialisations
		p1, p2     string // specialisations of Proc1 / Proc2
		bVar, cVar string
		fVar       string
	}
	insts := []inst{
		{1, "Pross1", "V1", true, 30, "Arch1lbl_", "_", "Proc10", "Proc20", "b", "c0", "f"},
		{2, "Pross2", "V1", false, 40, "Arch1lbl_P", "_P", "Proc11", "Proc21", "b0", "c1", "f0"},
		{3, "Pross3", "V2", false, 50, "Arch1lbl_Pr", "_Pr", "Proc12", "Proc22", "b1", "c2", "f1"},
		{33, "Pross3Bis", "V2", false, 60, "Arch1lbl", "_Pr", "Proc12", "Proc22", "b1", "c2", "f2"},
	}
	x := &GotestsExtra{Spec: sp, Relaxed: numeric}
	if numeric {
		x.InitVars = []string{"V1", "V2"}
	}
	tables := map[string]any{}
	procs := map[int]*Proc{}
	for _, in := range insts {
		rd, wr := RD(PlainR), WR(PlainW)
		if in.mapped {
			rd, wr = gtMRead, gtMWrite
		}
		p := s.Add(N(in.self), procspag.Arch1, nil, in.name,
			distsys.EnsureArchetypeRefParam("e", M(st, in.v, 0, rd, wr)),
			distsys.EnsureArchetypeValueParam("f", N(in.f)))
		procs[in.self] = p
		p1 := &gtProcSpec{TLA: in.p1, Go: "Proc1",
			Labels: map[string]string{"Proc1.Proc1lbl1": "Proc1lbl1" + in.sfx, "Proc1.Proc1lbl2": "Proc1lbl2" + in.sfx},
			Vars:   [][2]string{{"c", in.cVar}, {"b", in.bVar}}} // ref parameter a is specialised away
		p2 := &gtProcSpec{TLA: in.p2, Go: "Proc2", Labels: map[string]string{"Proc2.Proc2lbl1": "Proc2lbl1" + in.sfx}}
		x.wrap(p, map[string]string{"Arch1.Arch1lbl": in.lbl}, []*gtProcSpec{p1, p2}, calls)
		tables[in.name] = map[string]any{"self": in.self, "instance": "Arch1(ref " + in.v + map[bool]string{true: " via M", false: ""}[in.mapped] + ", f)",
			"labels":     map[string]string{"Arch1.Arch1lbl": in.lbl, "Proc1.Proc1lbl1": p1.Labels["Proc1.Proc1lbl1"], "Proc1.Proc1lbl2": p1.Labels["Proc1.Proc1lbl2"], "Proc2.Proc2lbl1": p2.Labels["Proc2.Proc2lbl1"]},
			"procedures": map[string]string{"Proc1": in.p1, "Proc2": in.p2},
			"locals":     map[string]string{"Arch1.f": in.fVar + " (scalar)", "Proc1.b": in.bVar + "[self]", "Proc1.c": in.cVar + "[self]", "Proc1.a / Proc2.a_": "(ref, specialised away: " + in.v + ")"}}
	}
	tables["processes_without_go"] = map[string]string{"Pross4=4": "pc stays Prosslbl1, local c stays defaultInitValue", "Pross5=5": "pc stays Pross5lbl1"}
	x.Tables = tables
	all := []tla.Value{N(4), N(5), N(1), N(2), N(3), N(33)}
	x.pcAndStack([]gtStatic{{N(4), "Prosslbl1"}, {N(5), "Pross5lbl1"}}, true)
	// order of pcal's VARIABLES: pc, V1, V2, stack, b, c0, b0, c1, b1, c2, b2, c3, c, f, f0, f1, f2
	x.global(st, "V1")
	x.global(st, "V2")
	x.procVarFns([]string{"b", "c0", "b0", "c1", "b1", "c2", "b2", "c3"}, all)
	x.scalar("c", func() tla.Value { return gtDefault })
	x.scalar("f", gtGet(procs[1], "Arch1.f"))
	x.scalar("f0", gtGet(procs[2], "Arch1.f"))
	x.scalar("f1", gtGet(procs[3], "Arch1.f"))
	x.scalar("f2", gtGet(procs[33], "Arch1.f"))
	x.Classify = func(r GotestsRejection) string {
		switch {
		case r.GoLabel == "Proc1.Proc1lbl1" && r.Kind == "step-not-in-Next" && !strings.Contains(r.After, `pc |-> "Proc1lbl2"`):
			// the frame the Go pushed returns to this specialisation's own Proc1lbl2 (renamed by pcal); the translation
			// kept the unrenamed name, i.e. the label of the LAST specialisation (Proc13)
			return "C02:ProcedureSpaghetti:specialised-procedure-return-label-clash"
		case r.GoLabel == "Proc1.Proc1lbl2" && r.Kind == "spec-eval-error-go-commits" && !strings.HasPrefix(r.Step, "Arch1(1)"):
			return "C02:ProcedureSpaghetti:specialised-procedure-reads-unbound-parameter"
		}
		return ""
	}
	sim := &Sim{Name: "gotests/ProcedureSpaghetti", Sched: s, SpecFiles: sp.Files, Module: sp.WrapModule,
		Params: map[string]any{"V1_V2_bound_to_integers": numeric, "V1": v1, "V2": v2}, MaxSteps: 40}
	return gtRegister(sim, x)
}

package adapters

import (
	"fmt"
	"math/rand"

	. "verifh/simsched"

	"github.com/DistCompiler/pgo/distsys"
	"github.com/DistCompiler/pgo/distsys/tla"
	"github.com/DistCompiler/pgo/systems/gcounter"
)

// gcounter: state-based grow-only counter. The shipped translation instantiates
//   Node \in NODE_SET == ANode(ref localcntrs[_] via LocalGCntr, ref c[_] via CasualHistory)
//   UpdateGCntr = 0   — a plain PlusCal process (no archetype, no Go): picks two replicas with different
//                       state, merges them (pointwise max) and unions their causal histories.
// The Node processes are the repository's generated gcounter.ANode; UpdateGCntr is part of the specification's
// environment and is written here by hand as an archetype over plain (unmapped) resources, following the
// PlusCal translation of label l1 line by line (TLC checks it together with everything else).
//
// exact=false runs the spec's alternative (commented-out) instantiation ANodeBench(ref localcntrs[_] via
// LocalGCntr, ref out) for BENCH_NUM_ROUNDS rounds; ANodeBench does not maintain `c`, so the LocalGCntr write
// macro additionally records a unique id <<self, k>> per increment in the hidden variable __know (merged by
// UpdateGCntr like c); such traces are not sent to TLC.

func sumFn(f tla.Value) int {
	t := 0
	it := f.AsFunction().Iterator()
	for !it.Done() {
		_, v, _ := it.Next()
		t += int(v.AsNumber())
	}
	return t
}

// LocalGCntr mapping macro.
func gcntrRead(iface distsys.ArchetypeInterface, _ []tla.Value, c tla.Value) (tla.Value, tla.Value, error) {
	// yield SUM($variable, DOMAIN $variable) — evaluated with the generated operator
	return c, gcounter.SUM(iface, c, tla.ModuleDomainSymbol(c)), nil
}

func gcntrWrite(know func(iface distsys.ArchetypeInterface, self tla.Value) error) WR {
	return func(iface distsys.ArchetypeInterface, _ []tla.Value, c, v tla.Value) (tla.Value, error) {
		if !tla.ModuleGreaterThanSymbol(v, N(0)).AsBool() {
			return c, fmt.Errorf("%w: ($value) > (0)", distsys.ErrAssertionFailed)
		}
		self := iface.Self()
		if know != nil {
			if err := know(iface, self); err != nil {
				return c, err
			}
		}
		return Except(c, tla.ModulePlusSymbol(c.ApplyFunction(self), v), self), nil
	}
}

// CasualHistory mapping macro.
func histWrite(_ distsys.ArchetypeInterface, _ []tla.Value, c, v tla.Value) (tla.Value, error) {
	return tla.ModuleUnionSymbol(c, v), nil
}

// mergerArchetype builds the hand-written environment process `name` (label l1) of gcounter/shopcart:
//
//	with (i1 \in Nodes; i2 \in {x \in Nodes : state[x] # state[i1]}) { merge(state,i1,i2); merge each history var }
//
// stateVar is merged with mergeState, every variable in unionVars by set union. All resources are plain.
func mergerArchetype(name, stateVar string, unionVars []string, nodes func(distsys.ArchetypeInterface) tla.Value,
	mergeState func(iface distsys.ArchetypeInterface, a, b tla.Value) (tla.Value, error)) distsys.MPCalArchetype {
	refs := []string{name + "." + stateVar}
	for _, u := range unionVars {
		refs = append(refs, name+"."+u)
	}
	jt := distsys.MakeMPCalJumpTable(
		distsys.MPCalCriticalSection{Name: name + ".l1", Body: func(iface distsys.ArchetypeInterface) error {
			sh, err := iface.RequireArchetypeResourceRef(name + "." + stateVar)
			if err != nil {
				return err
			}
			state, err := iface.Read(sh, nil)
			if err != nil {
				return err
			}
			ns := Elems(nodes(iface))
			type pair struct{ a, b tla.Value }
			var en []pair
			for _, a := range ns {
				for _, b := range ns {
					if !state.ApplyFunction(a).Equal(state.ApplyFunction(b)) {
						en = append(en, pair{a, b})
					}
				}
			}
			if len(en) == 0 { // `with` over an empty set for every i1: the action is disabled
				return distsys.ErrCriticalSectionAborted
			}
			p := en[iface.NextFairnessCounter(name+".l1.pair", uint(len(en)))]
			res, err := mergeState(iface, state.ApplyFunction(p.a), state.ApplyFunction(p.b))
			if err != nil {
				return err
			}
			if err = iface.Write(sh, nil, Except(Except(state, res, p.a), res, p.b)); err != nil {
				return err
			}
			for _, u := range unionVars {
				uh, err := iface.RequireArchetypeResourceRef(name + "." + u)
				if err != nil {
					return err
				}
				c, err := iface.Read(uh, nil)
				if err != nil {
					return err
				}
				cn := tla.ModuleUnionSymbol(c.ApplyFunction(p.a), c.ApplyFunction(p.b))
				if err = iface.Write(uh, nil, Except(Except(c, cn, p.a), cn, p.b)); err != nil {
					return err
				}
			}
			return iface.Goto(name + ".l1")
		}},
		distsys.MPCalCriticalSection{Name: name + ".Done", Body: func(distsys.ArchetypeInterface) error { return distsys.ErrDone }},
	)
	return distsys.MPCalArchetype{Name: name, Label: name + ".l1", RequiredRefParams: refs, RequiredValParams: []string{},
		JumpTable: jt, ProcTable: distsys.MakeMPCalProcTable(), PreAmble: func(distsys.ArchetypeInterface) {}}
}

func init() {
	Register(Factory{Name: "gcounter", Tags: []string{"c02", "c16"}, New: func(seed int64, exact bool, rng *rand.Rand) *Sim {
		if exact {
			return Gcounter(seed, 1+rng.Intn(4), 0)
		}
		return Gcounter(seed, 1+rng.Intn(5), 1+rng.Intn(3))
	}})
}

// Gcounter builds the G-counter system. benchRounds == 0: the shipped instantiation (ANode, exact);
// benchRounds > 0: ANodeBench with that many rounds and unique-id knowledge tracking (not for TLC).
func Gcounter(seed int64, numNodes, benchRounds int) *Sim {
	st := NewStore()
	nodeSet := tla.ModuleDotDotSymbol(N(1), N(numNodes))
	st.Init("localcntrs", Fn(nodeSet, K(Fn(nodeSet, K(N(0))))))
	st.Init("c", Fn(nodeSet, K(Set())))
	st.Init("out", tla.ModuledefaultInitValue)
	knowVar := "c"
	bench := benchRounds > 0
	if bench {
		knowVar = "__know"
		st.Init("__know", Fn(nodeSet, K(Set())))
	}
	s := NewSched(seed, st)
	consts := []distsys.MPCalContextConfigFn{
		distsys.DefineConstantValue("NUM_NODES", N(numNodes)),
		distsys.DefineConstantValue("BENCH_NUM_ROUNDS", N(benchRounds)),
	}
	var know func(iface distsys.ArchetypeInterface, self tla.Value) error
	if bench {
		knowRes := M(st, "__know", 1, PlainR, histWrite)
		know = func(iface distsys.ArchetypeInterface, self tla.Value) error {
			// runs inside the attempt and goes through a mapped resource, so it is rolled back / committed with it.
			// The id is the node's own component + 1, so a retried attempt reuses it.
			k := int(st.Cur["localcntrs"].ApplyFunction(self).ApplyFunction(self).AsNumber()) + 1
			kr, _ := knowRes.Index(iface, self)
			return kr.WriteValue(iface, Set(Tup(self, N(k))))
		}
	}
	var nodes []*Proc
	for i := 1; i <= numNodes; i++ {
		var p *Proc
		if bench {
			p = s.Add(N(i), gcounter.ANodeBench, map[string]string{"r": "r"}, "node", append(consts,
				distsys.EnsureArchetypeRefParam("cntr", M(st, "localcntrs", 1, gcntrRead, gcntrWrite(know))),
				distsys.EnsureArchetypeRefParam("out", M(st, "out", 0, PlainR, PlainW)))...)
		} else {
			p = s.Add(N(i), gcounter.ANode, map[string]string{}, "node", append(consts,
				distsys.EnsureArchetypeRefParam("cntr", M(st, "localcntrs", 1, gcntrRead, gcntrWrite(nil))),
				distsys.EnsureArchetypeRefParam("c", M(st, "c", 1, PlainR, histWrite)))...)
		}
		nodes = append(nodes, p)
	}
	merger := mergerArchetype("UpdateGCntr", "localcntrs", []string{knowVar}, gcounter.NODE_SET,
		func(iface distsys.ArchetypeInterface, a, b tla.Value) (tla.Value, error) {
			return Fn(tla.ModuleDomainSymbol(a), func(j tla.Value) tla.Value {
				return gcounter.MAX(iface, a.ApplyFunction(j), b.ApplyFunction(j))
			}), nil
		})
	s.Add(N(0), merger, map[string]string{}, "merger", append(consts,
		distsys.EnsureArchetypeRefParam("localcntrs", M(st, "localcntrs", 0, PlainR, PlainW)),
		distsys.EnsureArchetypeRefParam(knowVar, M(st, knowVar, 0, PlainR, PlainW)))...)
	// the merger is the delivery medium: starving it is a legal (unfair) schedule, but nodes can then only wait
	s.Weight = func(p *Proc, _ int) int {
		if p.Group == "merger" {
			return 2
		}
		return 1
	}

	sim := &Sim{Name: "gcounter", Sched: s, SpecFiles: []string{repoPath("systems/gcounter/gcounter.tla")}, Module: "gcounter",
		Constants:  []string{fmt.Sprintf("NUM_NODES = %d", numNodes), fmt.Sprintf("BENCH_NUM_ROUNDS = %d", benchRounds)},
		Invariants: []string{"StrongConvergence"},
		Params:     map[string]any{"NUM_NODES": numNodes, "bench_rounds": benchRounds},
		MaxSteps:   40 + 12*numNodes*numNodes*(1+benchRounds)}

	total := numNodes
	if bench {
		total = numNodes * benchRounds
	}
	prevRead := make([]int, numNodes+1)
	prevVec := st.Get("localcntrs")
	issued := 0
	sim.Monitor = func(step Step) []Violation {
		var vs []Violation
		lc := st.Get("localcntrs")
		kn := st.Get(knowVar)
		if step.Label == "ANode.update" || step.Label == "ANodeBench.inc" {
			issued++
		}
		for i := 1; i <= numNodes; i++ {
			vi := lc.ApplyFunction(N(i))
			// counters never decrease at a node: neither the value read (SUM) nor any component
			r := sumFn(vi)
			if r < prevRead[i] {
				vs = append(vs, Violation{"C16:gcounter:counter-decreased", fmt.Sprintf("node %d read %d after %d (step %d %s)", i, r, prevRead[i], step.N, step.Label)})
			}
			if r > issued {
				vs = append(vs, Violation{"C16:gcounter:counter-exceeds-increments", fmt.Sprintf("node %d reads %d but only %d increments were issued (step %d %s)", i, r, issued, step.N, step.Label)})
			}
			prevRead[i] = r
			for j := 1; j <= numNodes; j++ {
				if vi.ApplyFunction(N(j)).AsNumber() < prevVec.ApplyFunction(N(i)).ApplyFunction(N(j)).AsNumber() {
					vs = append(vs, Violation{"C16:gcounter:component-decreased", fmt.Sprintf("localcntrs[%d][%d] decreased at step %d %s: %s -> %s", i, j, step.N, step.Label, prevVec.String(), lc.String())})
				}
			}
			// StrongConvergence: equal knowledge => equal state (hence equal read)
			for j := i + 1; j <= numNodes; j++ {
				if kn.ApplyFunction(N(i)).Equal(kn.ApplyFunction(N(j))) && !vi.Equal(lc.ApplyFunction(N(j))) {
					vs = append(vs, Violation{"C16:gcounter:equal-knowledge-unequal-state", fmt.Sprintf("nodes %d and %d know %s but hold %s and %s (step %d %s)", i, j, kn.ApplyFunction(N(i)).String(), vi.String(), lc.ApplyFunction(N(j)).String(), step.N, step.Label)})
				}
			}
			// a node's knowledge and its state describe the same increments: |know[i]| = read value
			if k := kn.ApplyFunction(N(i)).AsSet().Len(); k != r {
				vs = append(vs, Violation{"C16:gcounter:knowledge-state-mismatch", fmt.Sprintf("node %d knows %d increments %s but reads %d (step %d %s)", i, k, kn.ApplyFunction(N(i)).String(), r, step.N, step.Label)})
			}
		}
		switch step.Label {
		case "ANode.wait":
			i := int(step.Proc.Self.AsNumber())
			if prevRead[i] != numNodes {
				vs = append(vs, Violation{"C16:gcounter:left-wait-early", fmt.Sprintf("node %d left wait reading %d, NUM_NODES = %d", i, prevRead[i], numNodes)})
			}
		case "ANodeBench.waitInc":
			i := int(step.Proc.Self.AsNumber())
			r := int(step.Proc.Local("r").AsNumber()) // already incremented
			if prevRead[i] < r*numNodes {
				vs = append(vs, Violation{"C16:gcounter:left-wait-early", fmt.Sprintf("node %d finished round %d reading %d < %d", i, r, prevRead[i], r*numNodes)})
			}
		}
		prevVec = lc
		return vs
	}
	sim.Final = func(RunResult) []Violation {
		var vs []Violation
		allDone := true
		for _, p := range nodes {
			if !procTerminated(p) {
				allDone = false
			}
		}
		lc := st.Get("localcntrs")
		if allDone {
			// restated NodeTermination/NodesConvergence: every terminated node has read the full count
			for i := 1; i <= numNodes; i++ {
				if r := sumFn(lc.ApplyFunction(N(i))); r != total {
					vs = append(vs, Violation{"C16:gcounter:final-value", fmt.Sprintf("all nodes terminated, node %d reads %d, expected %d", i, r, total)})
				}
			}
		}
		return vs
	}
	return sim
}

package adapters

import (
	"fmt"
	"math/rand"
	"strings"

	. "verifh/simsched"

	"github.com/DistCompiler/pgo/distsys"
	"github.com/DistCompiler/pgo/systems/shcounter"
)

// shcounter: NUM_NODES instances of ANode over one shared counter `cntr` (no mapping macro: plain
// read/write, as the spec's header says). The spec's only property is CntrValueOK == <>[](cntr = NUM_NODES),
// restated for finite observations as: the counter only ever grows by exactly one per `update` step, never
// exceeds NUM_NODES, a node leaves `wait` only when it reads NUM_NODES, and when every node has terminated
// (or the run went idle) the value equals NUM_NODES.

func init() {
	Register(Factory{Name: "shcounter", Tags: []string{"c02", "c16"}, New: func(seed int64, exact bool, rng *rand.Rand) *Sim {
		n := 1 + rng.Intn(4)
		if !exact {
			n = 1 + rng.Intn(7)
		}
		return Shcounter(seed, n)
	}})
}

// procTerminated: the process reached its Done label (the scheduler's Done flag is only set once the pseudo-label
// has been granted, which a starving policy or a step cap may prevent).
func procTerminated(p *Proc) bool { return p.Done || strings.HasSuffix(p.PC(), ".Done") }

// Shcounter builds the shared-counter system with numNodes nodes.
func Shcounter(seed int64, numNodes int) *Sim {
	st := NewStore()
	st.Init("cntr", N(0))
	s := NewSched(seed, st)
	var nodes []*Proc
	for i := 1; i <= numNodes; i++ {
		p := s.Add(N(i), shcounter.ANode, map[string]string{}, "node",
			distsys.DefineConstantValue("NUM_NODES", N(numNodes)),
			distsys.EnsureArchetypeRefParam("cntr", M(st, "cntr", 0, PlainR, PlainW)))
		nodes = append(nodes, p)
	}
	sim := &Sim{Name: "shcounter", Sched: s, SpecFiles: []string{repoPath("systems/shcounter/shcounter.tla")}, Module: "shcounter",
		Constants: []string{fmt.Sprintf("NUM_NODES = %d", numNodes)}, Invariants: nil,
		Params: map[string]any{"NUM_NODES": numNodes}, MaxSteps: 4*numNodes + 10}

	prev := 0
	updates := 0
	sim.Monitor = func(step Step) []Violation {
		var vs []Violation
		cur := int(st.Get("cntr").AsNumber())
		switch step.Label {
		case "ANode.update":
			updates++
			if cur != prev+1 {
				vs = append(vs, Violation{"C16:shcounter:update-not-plus-one", fmt.Sprintf("node %s committed update but cntr went %d -> %d (step %d)", step.Proc.Self.String(), prev, cur, step.N)})
			}
		case "ANode.wait":
			if cur != prev {
				vs = append(vs, Violation{"C16:shcounter:wait-changed-counter", fmt.Sprintf("node %s committed wait and cntr went %d -> %d (step %d)", step.Proc.Self.String(), prev, cur, step.N)})
			}
			if cur != numNodes {
				vs = append(vs, Violation{"C16:shcounter:left-wait-early", fmt.Sprintf("node %s left wait with cntr = %d, NUM_NODES = %d (step %d)", step.Proc.Self.String(), cur, numNodes, step.N)})
			}
		default:
			vs = append(vs, Violation{"C16:shcounter:unknown-label", fmt.Sprintf("commit at unexpected label %s", step.Label)})
		}
		if cur < prev {
			vs = append(vs, Violation{"C16:shcounter:counter-decreased", fmt.Sprintf("cntr went %d -> %d at step %d (%s)", prev, cur, step.N, step.Label)})
		}
		if cur > numNodes {
			vs = append(vs, Violation{"C16:shcounter:counter-exceeds-nodes", fmt.Sprintf("cntr = %d > NUM_NODES = %d at step %d", cur, numNodes, step.N)})
		}
		if cur != updates {
			vs = append(vs, Violation{"C16:shcounter:counter-not-number-of-updates", fmt.Sprintf("cntr = %d after %d committed updates (step %d)", cur, updates, step.N)})
		}
		prev = cur
		return vs
	}
	sim.Final = func(RunResult) []Violation {
		// "ends at exactly the number of nodes": once no node is at `update` any more the counter cannot change, so
		// its value is final whether or not the nodes have left `wait` (with a wrong value they never will).
		var vs []Violation
		cur := int(st.Get("cntr").AsNumber())
		for _, p := range nodes {
			if !procTerminated(p) && p.PC() != "ANode.wait" {
				return nil
			}
		}
		if cur != numNodes {
			where := []string{}
			for _, p := range nodes {
				where = append(where, p.Self.String()+"@"+p.TLAPC())
			}
			vs = append(vs, Violation{"C16:shcounter:final-value", fmt.Sprintf("every node has done its update and cntr = %d, NUM_NODES = %d (%v)", cur, numNodes, where)})
		}
		return vs
	}
	return sim
}

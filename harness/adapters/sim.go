// Package adapters holds one adapter per spec/Go pair: constants, initial globals, the process table
// (archetype, self, parameter bindings to mapping-macro resources), the Go-local -> TLA+ variable
// name table, and Go-side monitors of the spec's invariants. Adapter correctness is itself checked by
// TLC trace validation: a wrong adapter makes TLC reject the trace.
package adapters

import (
	"fmt"
	"os"
	"path/filepath"
	"time"

	"verifh/simsched"
	"verifh/tlc"
)

// RepoRoot is the repository the harness was built against (VERIF_REPO overrides /repo, development only).
func RepoRoot() string {
	if r := os.Getenv("VERIF_REPO"); r != "" {
		return r
	}
	return "/repo"
}

func repoPath(rel string) string { return filepath.Join(RepoRoot(), rel) }

// Sim is a ready-to-run simulated system.
type Sim struct {
	Name       string
	Sched      *simsched.Sched
	SpecFiles  []string
	Module     string
	Constants  []string
	Invariants []string
	// Monitor evaluates the Go-side invariant monitors after a committed step; returns violations (key, description).
	Monitor func(st simsched.Step) []Violation
	// Final runs at the end of a run (quiescent-point checks).
	Final func(res simsched.RunResult) []Violation
	// Describe returns adapter parameters for evidence samples.
	Params map[string]any
}

// Violation is a monitor report.
type Violation struct {
	Key  string
	Desc string
}

// Outcome of one simulated run.
type Outcome struct {
	Result     simsched.RunResult
	Violations []Violation
	States     []string // TLA+ states (only if capture)
	StepLog    []string // "proc@label" per commit
	Labels     map[string]int
	Signature  string
}

// Run starts the sim, runs up to maxSteps commits evaluating monitors after each, and shuts it down.
func (sim *Sim) Run(maxSteps int, capture bool) Outcome {
	out := Outcome{}
	s := sim.Sched
	if err := s.Start(); err != nil {
		out.Result.Err = err
		s.Shutdown()
		return out
	}
	if capture {
		out.States = append(out.States, s.TLAState())
	}
	s.OnCommit = func(st simsched.Step) error {
		out.StepLog = append(out.StepLog, fmt.Sprintf("%s(%s)@%s", st.Proc.Arch.Name, st.Proc.Self.String(), st.Label))
		if capture {
			out.States = append(out.States, s.TLAState())
		}
		if sim.Monitor != nil {
			if vs := sim.Monitor(st); len(vs) > 0 {
				out.Violations = append(out.Violations, vs...)
				return fmt.Errorf("monitor: %s", vs[0].Desc)
			}
		}
		return nil
	}
	out.Result = s.Run(maxSteps)
	if sim.Final != nil && out.Result.Err == nil {
		out.Violations = append(out.Violations, sim.Final(out.Result)...)
	}
	out.Labels = s.Labels
	out.Signature = s.Signature()
	s.Shutdown()
	return out
}

// Validate sends captured states to TLC.
func (sim *Sim) Validate(scratch string, states []string, timeout time.Duration) tlc.Verdict {
	return tlc.CheckTrace(scratch, tlc.TraceJob{
		SpecFiles: sim.SpecFiles, Module: sim.Module, Constants: sim.Constants, Invariants: sim.Invariants,
		Vars: sim.Sched.TLAVars(), States: states, Timeout: timeout,
	})
}

// Package adapters holds one adapter per spec/Go pair: constants, initial globals, the process table
// (archetype, self, parameter bindings to mapping-macro resources), the Go-local -> TLA+ variable
// name table, and Go-side monitors of the spec's invariants. Adapter correctness is itself checked by
// TLC trace validation: a wrong adapter makes TLC reject the trace.
package adapters

import (
	"fmt"
	"math/rand"
	"os"
	"path/filepath"
	"sort"
	"time"

	"verifh/simsched"
	"verifh/tlc"
)

// RepoRoot is the repository the harness was built against (VERIF_REPO overrides /repo, development only).
func RepoRoot() string {
	if r := os.Getenv("VERIF_REPO"); r != "" {
		return r
	}
	return "/repo"
}

func repoPath(rel string) string { return filepath.Join(RepoRoot(), rel) }

// Sim is a ready-to-run simulated system.
type Sim struct {
	Name       string
	Sched      *simsched.Sched
	SpecFiles  []string
	Module     string
	Constants  []string
	Invariants []string
	// Monitor evaluates the Go-side invariant monitors after a committed step; returns violations (key, description).
	Monitor func(st simsched.Step) []Violation
	// Final runs at the end of a run (quiescent-point checks).
	Final func(res simsched.RunResult) []Violation
	// Params describes the configuration (for evidence samples and replay files).
	Params map[string]any
	// MaxSteps is the recommended bound on committed steps for one run.
	MaxSteps int
	// Sync, if set, refreshes Store variables that are carried by REAL resources (e.g. LocalShared managers) from
	// those resources; called before the initial state is captured and after every committed step.
	Sync func()
	// AfterAbort, if set, is evaluated after every aborted attempt (which must have had no effect).
	AfterAbort func(p *simsched.Proc, label string) []Violation
}

// Violation is a monitor report.
type Violation struct {
	Key  string
	Desc string
}

// Outcome of one simulated run.
type Outcome struct {
	Result     simsched.RunResult
	Violations []Violation
	States     []string // TLA+ states (only if capture)
	StepLog    []string // "proc@label" per commit
	Labels     map[string]int
	Signature  string
}

// Run starts the sim, runs up to maxSteps commits evaluating monitors after each, and shuts it down.
func (sim *Sim) Run(maxSteps int, capture bool) Outcome {
	out := Outcome{}
	s := sim.Sched
	if err := s.Start(); err != nil {
		out.Result.Err = err
		s.Shutdown()
		return out
	}
	if sim.Sync != nil {
		sim.Sync()
	}
	if capture {
		out.States = append(out.States, s.TLAState())
	}
	if sim.AfterAbort != nil {
		s.OnAbort = func(p *simsched.Proc, label string) error {
			if vs := sim.AfterAbort(p, label); len(vs) > 0 {
				out.Violations = append(out.Violations, vs...)
				return fmt.Errorf("monitor: %s", vs[0].Desc)
			}
			return nil
		}
	}
	s.OnCommit = func(st simsched.Step) error {
		if sim.Sync != nil {
			sim.Sync()
		}
		out.StepLog = append(out.StepLog, fmt.Sprintf("%s(%s)@%s", st.Proc.Arch.Name, st.Proc.Self.String(), st.Label))
		if capture {
			out.States = append(out.States, s.TLAState())
		}
		if sim.Monitor != nil {
			if vs := sim.Monitor(st); len(vs) > 0 {
				out.Violations = append(out.Violations, vs...)
				return fmt.Errorf("monitor: %s", vs[0].Desc)
			}
		}
		return nil
	}
	out.Result = s.Run(maxSteps)
	if sim.Final != nil && out.Result.Err == nil {
		out.Violations = append(out.Violations, sim.Final(out.Result)...)
	}
	out.Labels = s.Labels
	out.Signature = s.Signature()
	s.Shutdown()
	return out
}

// Validate sends captured states to TLC.
func (sim *Sim) Validate(scratch string, states []string, timeout time.Duration) tlc.Verdict {
	return tlc.CheckTrace(scratch, tlc.TraceJob{
		SpecFiles: sim.SpecFiles, Module: sim.Module, Constants: sim.Constants, Invariants: sim.Invariants,
		Vars: sim.Sched.TLAVars(), States: states, Timeout: timeout,
	})
}

// Factory builds sims of one spec/Go pair. exact=true: the harness resources implement the spec's mapping
// macros exactly (the trace must be accepted by TLC against the shipped spec); exact=false: the same macros
// instrumented with unique ids where the spec uses constants (for conservation / exactly-once monitors) —
// such traces are NOT sent to TLC. The factory draws its own configuration (sizes, bounds) from rng.
type Factory struct {
	Name string
	Tags []string // checks that use it: "c02", "c14", "c15", "c16", "c08", "c09"
	New  func(seed int64, exact bool, rng *rand.Rand) *Sim
}

var registry []Factory

// Register adds a factory (called from init functions of adapter files).
func Register(f Factory) { registry = append(registry, f) }

// Factories returns the factories carrying tag ("" = all), in name order.
func Factories(tag string) []Factory {
	var out []Factory
	for _, f := range registry {
		if tag == "" {
			out = append(out, f)
			continue
		}
		for _, t := range f.Tags {
			if t == tag {
				out = append(out, f)
				break
			}
		}
	}
	sort.Slice(out, func(i, j int) bool { return out[i].Name < out[j].Name })
	return out
}

---- MODULE NestedCRDTImplMC ----
(* Model values for the constant operators of NestedCRDTImpl, mirroring the grow-only counter the repository's *)
(* own test (systems/nestedcrdtimpl/nestedcrdtimpl_test.go, makeGCounterResource) plugs into ACRDTResource:    *)
(* state = function resource-id -> count, ZERO = empty function, COMBINE = pointwise max over the union of    *)
(* the domains, UPDATE = add v at self, VIEW = sum of the counts. Used only by the verification harness        *)
(* (adapters/nestedcrdtimpl.go); the shipped NestedCRDTImpl.tla is EXTENDed unchanged.                         *)
EXTENDS NestedCRDTImpl

MCZero == [x \in {} |-> 0]

MCMax(a, b) == IF a > b THEN a ELSE b

MCCombine(l, r) == [k \in (DOMAIN l) \cup (DOMAIN r) |->
                      IF k \in DOMAIN l
                      THEN (IF k \in DOMAIN r THEN MCMax(l[k], r[k]) ELSE l[k])
                      ELSE r[k]]

MCUpdate(self, s, v) == [k \in (DOMAIN s) \cup {self} |->
                           IF k = self
                           THEN (IF self \in DOMAIN s THEN s[self] + v ELSE v)
                           ELSE s[k]]

RECURSIVE MCSumFn(_, _)
MCSumFn(f, d) == IF d = {} THEN 0
                 ELSE LET x == CHOOSE x \in d : TRUE
                      IN f[x] + MCSumFn(f, d \ {x})

MCView(s) == MCSumFn(s, DOMAIN s)

MCEmptyCell == [tpe |-> "empty_cell"]

(* StateSanity as presumably intended (every replica's view is bounded by the writes issued so far), with a    *)
(* sum over node ids instead of a sum over a SET of values (which collapses equal summands).                   *)
MCWritesIssued == MCSumFn([n \in NODE_IDS |-> writesPending[n] + writesAchieved[n]], NODE_IDS)
MCViewBounded == \A r \in RESOURCE_IDS : MCView(state[r]) <= MCWritesIssued
====

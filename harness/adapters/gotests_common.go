package adapters

// Shared machinery of the adapters for the compiler test pairs (pgo/test/files/**/X.tla[.expectpcal] +
// X.tla.gotests). For these pairs the reference artefact is the PlusCal that PGo's MPCal->PlusCal pass emitted
// (checked in as X.tla.expectpcal); it is translated to TLA+ with the installed `pcal` at check run time into a
// scratch directory, and TLC validates the recorded traces against that translation.
//
// Everything here is prefixed gt/Gotests; nothing in sim.go/simsched/tlc is changed. What the engine lacks
// (a per-Sim state renderer able to print `stack`, scalar process locals, procedure variables; an Init-free trace
// job) is provided here through a side table (GotestsExtraOf) and a wrapper module; see checks/c02g/NOTES.md for
// the proposed engine change.

import (
	"fmt"
	"os"
	"os/exec"
	"path/filepath"
	"regexp"
	"sort"
	"strings"
	"sync"
	"time"

	. "verifh/simsched"
	"verifh/tlc"

	"github.com/DistCompiler/pgo/distsys"
	"github.com/DistCompiler/pgo/distsys/tla"
)

// ---------------------------------------------------------------------------------------------------------
// scratch directory and run-time translation of the PlusCal artefacts
// ---------------------------------------------------------------------------------------------------------

var (
	gtMu      sync.Mutex
	gtScratch string
	gtOwnDir  bool
	gtSpecs   = map[string]*GotestsSpec{}
)

// GotestsSetScratch tells the adapters where to put the translated specifications (a directory owned by the
// check, outside /repo and /verif). Without it a directory under os.TempDir() is created on first use.
func GotestsSetScratch(dir string) {
	gtMu.Lock()
	defer gtMu.Unlock()
	gtScratch, gtOwnDir = dir, false
}

// GotestsCleanup removes a scratch directory the adapters created themselves.
func GotestsCleanup() {
	gtMu.Lock()
	defer gtMu.Unlock()
	if gtOwnDir && gtScratch != "" {
		os.RemoveAll(gtScratch)
	}
	gtScratch, gtOwnDir = "", false
	gtSpecs = map[string]*GotestsSpec{}
}

// GotestsSpec is one translated artefact.
type GotestsSpec struct {
	Pair       string   // e.g. "general/hello"
	Source     string   // file in the repository the PlusCal was taken from
	Module     string   // module name of the artefact
	WrapModule string   // module that EXTENDS Module and adds harness helper definitions (VerifTrue, constant operators)
	Files      []string // translated module first, wrapper second
	Text       string   // text of the translated module
	Repairs    []string // textual repairs that were necessary to make the artefact loadable (each is an observation)
	Err        error
}

// gtRepair is a documented textual repair applied in scratch when the artefact as produced cannot be loaded by
// SANY/TLC. Stage "pcal" is applied to the PlusCal before translation, stage "tla" to the translation.
type gtRepair struct {
	Stage string
	Why   string
	Re    *regexp.Regexp
	Repl  string
}

var gtReModule = regexp.MustCompile(`(?m)^-{4,}\s*MODULE\s+(\w+)\s*-{4,}`)

// gtTranslate copies rel (relative to the repository root) to scratch as <Module>.tla, runs pcal on it, applies
// the listed repairs and writes the wrapper module. Results are cached per repository root and file.
func gtTranslate(pair, rel, wrapDefs string, repairs []gtRepair) *GotestsSpec {
	gtMu.Lock()
	defer gtMu.Unlock()
	key := RepoRoot() + "|" + rel
	if sp, ok := gtSpecs[key]; ok {
		return sp
	}
	sp := &GotestsSpec{Pair: pair, Source: repoPath(rel)}
	gtSpecs[key] = sp
	fail := func(format string, a ...any) *GotestsSpec {
		sp.Err = fmt.Errorf("%s: %s", pair, fmt.Sprintf(format, a...))
		return sp
	}
	if gtScratch == "" {
		d, err := os.MkdirTemp("", "verif-gotests-")
		if err != nil {
			return fail("%v", err)
		}
		gtScratch, gtOwnDir = d, true
	}
	buf, err := os.ReadFile(sp.Source)
	if err != nil {
		return fail("%v", err)
	}
	m := gtReModule.FindSubmatch(buf)
	if m == nil {
		return fail("no MODULE header in %s", sp.Source)
	}
	sp.Module = string(m[1])
	sp.WrapModule = sp.Module + "_vw"
	dir, err := os.MkdirTemp(gtScratch, strings.ReplaceAll(pair, "/", "_")+"-")
	if err != nil {
		return fail("%v", err)
	}
	text := string(buf)
	for _, r := range repairs {
		if r.Stage == "pcal" && r.Re.MatchString(text) {
			text = r.Re.ReplaceAllString(text, r.Repl)
			sp.Repairs = append(sp.Repairs, r.Why)
		}
	}
	file := filepath.Join(dir, sp.Module+".tla")
	if err := os.WriteFile(file, []byte(text), 0o644); err != nil {
		return fail("%v", err)
	}
	if strings.Contains(text, "--algorithm") || strings.Contains(text, "--fair algorithm") {
		cmd := exec.Command("pcal", "-nocfg", sp.Module+".tla")
		cmd.Dir = dir
		out, err := cmd.CombinedOutput()
		if err != nil || !strings.Contains(string(out), "Translation completed") {
			return fail("pcal failed: %v\n%s", err, gtTailStr(string(out), 1500))
		}
	}
	tb, err := os.ReadFile(file)
	if err != nil {
		return fail("%v", err)
	}
	text = string(tb)
	changed := false
	for _, r := range repairs {
		if r.Stage == "tla" && r.Re.MatchString(text) {
			text = r.Re.ReplaceAllString(text, r.Repl)
			sp.Repairs = append(sp.Repairs, r.Why)
			changed = true
		}
	}
	if changed {
		if err := os.WriteFile(file, []byte(text), 0o644); err != nil {
			return fail("%v", err)
		}
	}
	sp.Text = text
	wrap := fmt.Sprintf("---- MODULE %s ----\nEXTENDS %s\nVerifTrue == TRUE\n%s\n====\n", sp.WrapModule, sp.Module, wrapDefs)
	wfile := filepath.Join(dir, sp.WrapModule+".tla")
	if err := os.WriteFile(wfile, []byte(wrap), 0o644); err != nil {
		return fail("%v", err)
	}
	sp.Files = []string{wfile, file} // tlc.CheckTrace EXTENDs Module; file order is irrelevant for copying
	return sp
}

// gtArtefactDef says where a pair's artefact lives and what the wrapper module / scratch repairs are.
type gtArtefactDef struct {
	Rel     string
	Wrap    string
	Repairs []gtRepair
}

var gtArtefacts = map[string]gtArtefactDef{}

// GotestsArtefact translates (once) and returns the artefact of a pair, e.g. "general/hello".
func GotestsArtefact(pair string) *GotestsSpec {
	d, ok := gtArtefacts[pair]
	if !ok {
		return &GotestsSpec{Pair: pair, Err: fmt.Errorf("unknown pair %s", pair)}
	}
	return gtTranslate(pair, d.Rel, d.Wrap, d.Repairs)
}

func gtTailStr(s string, n int) string {
	if len(s) > n {
		return s[len(s)-n:]
	}
	return s
}

// gtCallees derives, from the translated text, the procedure pushed by every label that performs a call:
// label name (after pcal's renaming) -> procedure name (the `procedure |-> "P"` field of the pushed frame).
func gtCallees(text string) map[string]string {
	out := map[string]string{}
	reDef := regexp.MustCompile(`(?m)^(\w+)(\(self\))? == `)
	reProc := regexp.MustCompile(`procedure\s*\|->\s*"(\w+)"`)
	locs := reDef.FindAllStringSubmatchIndex(text, -1)
	for i, l := range locs {
		end := len(text)
		if i+1 < len(locs) {
			end = locs[i+1][0]
		}
		body := text[l[0]:end]
		if m := reProc.FindStringSubmatch(body); m != nil {
			out[text[l[2]:l[3]]] = m[1]
		}
	}
	return out
}

// ---------------------------------------------------------------------------------------------------------
// rendering of the Go state as the state of pcal's translation
// ---------------------------------------------------------------------------------------------------------

// gtProcSpec describes one procedure of the PlusCal artefact (i.e. one specialisation of an MPCal procedure).
type gtProcSpec struct {
	TLA    string            // procedure name in the artefact, e.g. "Proc10"
	Go     string            // MPCal/Go procedure name, e.g. "Proc1"
	Labels map[string]string // Go label ("Proc1.Proc1lbl2") -> label after pcal's renaming ("Proc1lbl2_"); absent = strip the prefix
	Vars   [][2]string       // (Go state variable without prefix, TLA+ variable) for every parameter/local that survives specialisation, in the order pcal saves them
}

// gtProc wraps a scheduled process with what is needed to name its labels and render its stack.
type gtProc struct {
	P      *Proc
	Labels map[string]string      // labels of the process body: Go label -> pcal label; absent = strip the prefix
	Procs  map[string]*gtProcSpec // reachable procedures by artefact name
	Calls  map[string]string      // call-site label (pcal name) -> artefact procedure called (gtCallees)
	shadow []string               // artefact procedure of every Go stack frame, top first
	Err    error
}

func gtStrip(l string) string { return l[strings.Index(l, ".")+1:] }

// label names goLabel in the context of the procedure ctx ("" = process body).
func (g *gtProc) label(ctx, goLabel string) string {
	tab := g.Labels
	if ctx != "" {
		if ps := g.Procs[ctx]; ps != nil {
			tab = ps.Labels
		} else {
			tab = nil
		}
	}
	if t, ok := tab[goLabel]; ok {
		return t
	}
	return gtStrip(goLabel)
}

func (g *gtProc) top() string {
	if len(g.shadow) > 0 {
		return g.shadow[0]
	}
	return ""
}

// tlaPC is the pc of the process as the translation names it.
func (g *gtProc) tlaPC() string {
	if g.P.Done {
		return "Done"
	}
	return g.label(g.top(), g.P.PC())
}

func gtLocalRaw(p *Proc, full string) (v tla.Value) {
	defer func() {
		if recover() != nil {
			v = tla.Value{} // a state variable that does not exist yet holds defaultInitValue in the translation
		}
	}()
	return p.Ctx.IFace().ReadArchetypeResourceLocal(full)
}

func (g *gtProc) goStack() []tla.Value {
	if g.P.Done && g.P.Ctx == nil {
		return nil
	}
	s := gtLocalRaw(g.P, ".stack")
	if !s.IsTuple() {
		return nil
	}
	return TupleElems(s)
}

// afterCommit keeps the shadow stack in step with the Go stack. label is the Go label that was executed.
func (g *gtProc) afterCommit(goLabel string) {
	site := g.label(g.top(), goLabel)
	n := len(g.goStack())
	switch {
	case n == len(g.shadow)+1:
		callee, ok := g.Calls[site]
		if !ok {
			callee = "?unknown-callee-at-" + site
			g.Err = fmt.Errorf("label %s pushed a frame but the translation has no call at %s", goLabel, site)
		}
		g.shadow = append([]string{callee}, g.shadow...)
	case n == len(g.shadow)-1:
		g.shadow = g.shadow[1:]
	case n == len(g.shadow):
		if callee, ok := g.Calls[site]; ok && n > 0 { // tail call: frame replaced
			g.shadow = append([]string{callee}, g.shadow[1:]...)
		}
	default:
		g.Err = fmt.Errorf("label %s changed the stack depth from %d to %d", goLabel, len(g.shadow), n)
		for len(g.shadow) > n {
			g.shadow = g.shadow[1:]
		}
		for len(g.shadow) < n {
			g.shadow = append([]string{"?"}, g.shadow...)
		}
	}
}

// stackTLA renders the Go stack as PlusCal's stack[self].
func (g *gtProc) stackTLA() string {
	frames := g.goStack()
	var fs []string
	for i, fr := range frames {
		proc := "?"
		if i < len(g.shadow) {
			proc = g.shadow[i]
		}
		caller := ""
		if i+1 < len(g.shadow) {
			caller = g.shadow[i+1]
		}
		parts := []string{fmt.Sprintf("procedure |-> %q", proc)}
		if pcv, ok := fr.AsFunction().Get(S(".pc")); ok {
			parts = append(parts, fmt.Sprintf("pc |-> %q", g.label(caller, pcv.AsString())))
		}
		if ps := g.Procs[proc]; ps != nil {
			for _, gv := range ps.Vars {
				if v, ok := fr.AsFunction().Get(S(ps.Go + "." + gv[0])); ok {
					parts = append(parts, fmt.Sprintf("%s |-> (%s)", gv[1], v.String()))
				}
			}
		}
		fs = append(fs, "["+strings.Join(parts, ", ")+"]")
	}
	return "<<" + strings.Join(fs, ", ") + ">>"
}

// gtVar is one variable of the translation and how to print it.
type gtVar struct {
	Name   string
	Render func() string
}

// GotestsExtra is what a gotests Sim carries beyond adapters.Sim (side table; proposed as Sim fields).
type GotestsExtra struct {
	Spec    *GotestsSpec
	vars    []gtVar
	procs   []*gtProc
	byID    map[int]*gtProc
	Notes   []string
	Tables  map[string]any // the renaming tables, for evidence
	Relaxed bool           // the first state differs from Init in environment-provided variables (see InitDiff)
	// InitVars are the variables whose initial value the harness chooses although the artefact leaves them
	// uninitialised (defaultInitValue); traces starting there are validated with Init relaxed, after the true
	// initial state was validated separately.
	InitVars []string
	// Acts records, per committed step, the acting process and the label it executed as the translation names them
	// (the action TLC is asked about); EndAct is the label at which the Go run failed, if it did.
	Acts   []GotestsAct
	EndAct *GotestsAct
	// Classify may refine the key of a rejection from the shape of its witness ("" = keep the default key).
	Classify func(r GotestsRejection) string
}

var gtExtras sync.Map // *Sim -> *GotestsExtra

// GotestsExtraOf returns the renderer of a gotests Sim (nil for other adapters).
func GotestsExtraOf(sim *Sim) *GotestsExtra {
	if v, ok := gtExtras.Load(sim); ok {
		return v.(*GotestsExtra)
	}
	return nil
}

// State renders the current state as a TLA+ record over Vars().
func (x *GotestsExtra) State() string {
	parts := make([]string, len(x.vars))
	for i, v := range x.vars {
		parts[i] = v.Name + " |-> " + v.Render()
	}
	return "[" + strings.Join(parts, ",\n   ") + "]"
}

// Vars lists the variables of the translation.
func (x *GotestsExtra) Vars() []string {
	out := make([]string, len(x.vars))
	for i, v := range x.vars {
		out[i] = v.Name
	}
	return out
}

func (x *GotestsExtra) add(name string, f func() string) { x.vars = append(x.vars, gtVar{name, f}) }

// GotestsAct names one action instance of the translation: label L of process Self.
type GotestsAct struct {
	Self  string // TLA+ text of the process identifier
	Label string // label after pcal's renaming = name of the action in the translation
}

// gtEntry gives the value of a per-process variable for one process id.
type gtEntry struct {
	Self  tla.Value
	Get   func() tla.Value // nil = Const
	Const tla.Value
}

func (e gtEntry) val() tla.Value {
	if e.Get != nil {
		return e.Get()
	}
	return e.Const
}

func gtFnText(es []gtEntry, f func(gtEntry) string) string {
	es = append([]gtEntry{}, es...)
	sort.Slice(es, func(i, j int) bool { return Less(es[i].Self, es[j].Self) })
	ps := make([]string, len(es))
	for i, e := range es {
		ps[i] = fmt.Sprintf("(%s) :> (%s)", e.Self.String(), f(e))
	}
	if len(ps) == 0 {
		return "<<>>"
	}
	return "(" + strings.Join(ps, " @@ ") + ")"
}

// global prints a Store variable.
func (x *GotestsExtra) global(st *Store, name string) {
	x.add(name, func() string { return "(" + st.Committed[name].String() + ")" })
}

// scalar prints a variable that is not indexed by process (local of a single process).
func (x *GotestsExtra) scalar(name string, get func() tla.Value) {
	x.add(name, func() string { return "(" + get().String() + ")" })
}

// fn prints a variable that is a function over process ids.
func (x *GotestsExtra) fn(name string, es []gtEntry) {
	x.add(name, func() string { return gtFnText(es, func(e gtEntry) string { return e.val().String() }) })
}

// gtStatic describes a process of the artefact that has no generated Go (plain PlusCal process): it never moves.
type gtStatic struct {
	Self tla.Value
	PC   string
}

// pcAndStack adds pc (and stack when withStack) over all processes.
func (x *GotestsExtra) pcAndStack(static []gtStatic, withStack bool) {
	x.add("pc", func() string {
		var es []gtEntry
		strs := map[string]string{}
		for _, g := range x.procs {
			es = append(es, gtEntry{Self: g.P.Self})
			strs[g.P.Self.String()] = g.tlaPC()
		}
		for _, s := range static {
			es = append(es, gtEntry{Self: s.Self})
			strs[s.Self.String()] = s.PC
		}
		return gtFnText(es, func(e gtEntry) string { return fmt.Sprintf("%q", strs[e.Self.String()]) })
	})
	if !withStack {
		return
	}
	x.add("stack", func() string {
		var es []gtEntry
		strs := map[string]string{}
		for _, g := range x.procs {
			es = append(es, gtEntry{Self: g.P.Self})
			strs[g.P.Self.String()] = g.stackTLA()
		}
		for _, s := range static {
			es = append(es, gtEntry{Self: s.Self})
			strs[s.Self.String()] = "<<>>"
		}
		return gtFnText(es, func(e gtEntry) string { return strs[e.Self.String()] })
	})
}

// wrap registers a scheduled process.
func (x *GotestsExtra) wrap(p *Proc, labels map[string]string, procs []*gtProcSpec, calls map[string]string) *gtProc {
	g := &gtProc{P: p, Labels: labels, Procs: map[string]*gtProcSpec{}, Calls: calls}
	for _, ps := range procs {
		g.Procs[ps.TLA] = ps
	}
	p.LabelName = func(l string) string { return g.label(g.top(), l) }
	x.procs = append(x.procs, g)
	if x.byID == nil {
		x.byID = map[int]*gtProc{}
	}
	x.byID[p.ID] = g
	return g
}

// local returns a getter for a Go state variable (full name, e.g. "ANode.log" or "Proc1.b").
func gtGet(p *Proc, full string) func() tla.Value {
	return func() tla.Value { return gtLocalRaw(p, full) }
}

var gtDefault = tla.Value{}

// procVarFns adds, for every procedure variable of the artefact (listed in order), the function over all process
// ids: the Go variable of the process that uses that specialisation, defaultInitValue for every other process.
func (x *GotestsExtra) procVarFns(order []string, allSelves []tla.Value) {
	for _, name := range order {
		name := name
		var es []gtEntry
		for _, self := range allSelves {
			e := gtEntry{Self: self, Const: gtDefault}
			for _, g := range x.procs {
				if !g.P.Self.Equal(self) {
					continue
				}
				for _, ps := range g.Procs {
					for _, gv := range ps.Vars {
						if gv[1] == name {
							e.Get = gtGet(g.P, ps.Go+"."+gv[0])
						}
					}
				}
			}
			es = append(es, e)
		}
		x.fn(name, es)
	}
}

// ---------------------------------------------------------------------------------------------------------
// running and validating
// ---------------------------------------------------------------------------------------------------------

// gtRegister attaches the renderer to the sim.
func gtRegister(sim *Sim, x *GotestsExtra) *Sim {
	gtExtras.Store(sim, x)
	return sim
}

// GotestsRun is Sim.Run with the gotests renderer (falls back to Sim.Run for other adapters).
func GotestsRun(sim *Sim, maxSteps int, capture bool) Outcome {
	x := GotestsExtraOf(sim)
	if x == nil {
		return sim.Run(maxSteps, capture)
	}
	out := Outcome{}
	s := sim.Sched
	if err := s.Start(); err != nil {
		out.Result.Err = err
		s.Shutdown()
		return out
	}
	if capture {
		out.States = append(out.States, x.State())
	}
	s.OnCommit = func(st Step) error {
		out.StepLog = append(out.StepLog, fmt.Sprintf("%s(%s)@%s", st.Proc.Arch.Name, st.Proc.Self.String(), st.Label))
		if g := x.byID[st.Proc.ID]; g != nil {
			x.Acts = append(x.Acts, GotestsAct{Self: st.Proc.Self.String(), Label: g.label(g.top(), st.Label)})
			g.afterCommit(st.Label)
			if g.Err != nil {
				x.Notes = append(x.Notes, g.Err.Error())
				g.Err = nil
			}
		}
		if capture {
			out.States = append(out.States, x.State())
		}
		if sim.Monitor != nil {
			if vs := sim.Monitor(st); len(vs) > 0 {
				out.Violations = append(out.Violations, vs...)
				return fmt.Errorf("monitor: %s", vs[0].Desc)
			}
		}
		return nil
	}
	out.Result = s.Run(maxSteps)
	if p := out.Result.ErrProc; p != nil && !out.Result.MonitorErr {
		if g := x.byID[p.ID]; g != nil {
			// the failing section did not reach its Goto/Call/Return: .pc still names the label that failed
			if pcv := gtLocalRaw(p, ".pc"); pcv.IsString() {
				x.EndAct = &GotestsAct{Self: p.Self.String(), Label: g.label(g.top(), pcv.AsString())}
			}
		}
	}
	if sim.Final != nil && out.Result.Err == nil {
		out.Violations = append(out.Violations, sim.Final(out.Result)...)
	}
	out.Labels = s.Labels
	out.Signature = s.Signature()
	s.Shutdown()
	return out
}

// GotestsValidate sends states to TLC. relaxInit replaces the translation's Init by TRUE (cfg override
// `Init <- VerifTrue`): used for suffixes of a trace after a rejected step, for traces that start in a state
// whose environment-provided variables the harness chose, and for single-step checks.
func GotestsValidate(sim *Sim, scratch string, states []string, relaxInit bool, timeout time.Duration) tlc.Verdict {
	x := GotestsExtraOf(sim)
	if x == nil {
		return sim.Validate(scratch, states, timeout)
	}
	consts := append([]string{}, sim.Constants...)
	if relaxInit {
		consts = append(consts, "Init <- VerifTrue")
	}
	return tlc.CheckTrace(scratch, tlc.TraceJob{
		SpecFiles: sim.SpecFiles, Module: sim.Module, Constants: consts, Invariants: sim.Invariants,
		Vars: x.Vars(), States: states, Timeout: timeout,
	})
}

// gtAssertErr is the error a mapping macro returns for `assert FALSE`.
func gtAssertErr(format string, a ...any) error {
	return fmt.Errorf("%w: %s", distsys.ErrAssertionFailed, fmt.Sprintf(format, a...))
}

// gtSpecFail builds a Sim that only carries the translation failure (the driver reports it).
func gtSpecFail(name string, sp *GotestsSpec) *Sim {
	st := NewStore()
	sim := &Sim{Name: name, Sched: NewSched(1, st), Params: map[string]any{"error": sp.Err.Error()}}
	return gtRegister(sim, &GotestsExtra{Spec: sp})
}

package adapters

import (
	"fmt"
	"math/rand"

	. "verifh/simsched"

	"github.com/DistCompiler/pgo/distsys"
	"github.com/DistCompiler/pgo/distsys/tla"
	"github.com/DistCompiler/pgo/systems/loadbalancer"
)

// loadbalancer: LoadBalancerId = 0, servers 1..NUM_SERVERS, clients NUM_SERVERS+1..NUM_SERVERS+NUM_CLIENTS;
// network[_] via TCPChannel, fs[_] via WebPages, in/out plain.
//
// The TLA+ translation block shipped in load_balancer.tla was produced by an older translator than the
// file's PlusCal block: the process `LoadBalancer = LoadBalancerId` is a single process (its variables msg_
// and next are plain variables) and every mapped read/write goes through a global temporary
// (mailboxesRead, mailboxesWrite, ..., outstreamWrite0). The temporaries are deterministic functions of the
// step, so the mapping macros below maintain them and the recorded traces are checked against the shipped
// file verbatim.
//
// exact=false: `in` yields a fresh path id per read and fs[path] yields <<"page", path>>, so that a response
// identifies the request it answers.

func init() {
	Register(Factory{Name: "loadbalancer", Tags: []string{"c02", "c16"}, New: func(seed int64, exact bool, rng *rand.Rand) *Sim {
		return LoadBalancer(seed, LoadBalancerOpts{NumServers: 1 + rng.Intn(3), NumClients: 1 + rng.Intn(4), BufferSize: 1 + rng.Intn(3), Exact: exact})
	}})
}

// LoadBalancerOpts is the configuration of one load balancer sim.
type LoadBalancerOpts struct {
	NumServers, NumClients, BufferSize int
	Exact                              bool
}

const (
	lbGetPage = 200
	lbWebPage = 42
)

func lbPage(path tla.Value) tla.Value { return Tup(S("page"), path) }

// LoadBalancer builds the load balancer system.
func LoadBalancer(seed int64, o LoadBalancerOpts) *Sim {
	ns, ncl, bs := o.NumServers, o.NumClients, o.BufferSize
	const lbID = 0
	obs := map[string]int{} // what the monitors saw (evidence)
	st := NewStore()
	nodes := tla.ModuleDotDotSymbol(N(0), N(ns+ncl))
	st.Init("network", Fn(nodes, K(Tup())))
	st.Init("in", N(0))
	st.Init("out", N(0))
	st.Init("fs", Fn(Set(N(0)), K(N(lbWebPage))))
	temps := []string{"mailboxesRead", "mailboxesWrite", "mailboxesWrite0", "mailboxesRead0", "mailboxesWrite1", "file_systemRead",
		"mailboxesWrite2", "instreamRead", "mailboxesWrite3", "mailboxesRead1", "outstreamWrite", "mailboxesWrite4", "outstreamWrite0"}
	for _, t := range temps {
		st.Init(t, tla.Value{})
	}
	st.Init("msg_", tla.Value{})
	st.Init("next", N(0))
	st.Init("__pathctr", N(0))
	s := NewSched(seed, st)
	consts := []distsys.MPCalContextConfigFn{
		distsys.DefineConstantValue("LoadBalancerId", N(lbID)),
		distsys.DefineConstantValue("NUM_SERVERS", N(ns)),
		distsys.DefineConstantValue("NUM_CLIENTS", N(ncl)),
		distsys.DefineConstantValue("BUFFER_SIZE", N(bs)),
		distsys.DefineConstantValue("GET_PAGE", N(lbGetPage)),
		distsys.DefineConstantValue("WEB_PAGE", N(lbWebPage)),
	}
	// TCPChannel bound to network[_]; tmpW / tmpR name the translation's temporaries of the instantiating process
	mailboxes := func(tmpW, tmpR string) distsys.MPCalContextConfigFn {
		wr := mpTCPWrite(bs, obs)
		return distsys.EnsureArchetypeRefParam("mailboxes", M(st, "network", 1,
			func(iface distsys.ArchetypeInterface, path []tla.Value, c tla.Value) (tla.Value, tla.Value, error) {
				nc, y, err := mpTCPRead(iface, path, c)
				if err != nil {
					return nc, y, err
				}
				mpSet(st, iface, tmpW, mpAfter(st, "network", path, nc))
				mpSet(st, iface, tmpR, y)
				return nc, y, nil
			},
			func(iface distsys.ArchetypeInterface, path []tla.Value, c, v tla.Value) (tla.Value, error) {
				nc, err := wr(iface, path, c, v)
				if err != nil {
					return nc, err
				}
				mpSet(st, iface, tmpW, mpAfter(st, "network", path, nc))
				return nc, nil
			}))
	}
	lb := s.Add(N(lbID), loadbalancer.ALoadBalancer, map[string]string{}, "lb", append(consts, mailboxes("mailboxesWrite", "mailboxesRead"))...)
	mir := &mpMirror{st: st, s: s, p: lb, vars: map[string]string{"msg": "msg_", "next": "next"}}
	st.Aux = append(st.Aux, mir)
	servers := map[int]*Proc{}
	for i := 1; i <= ns; i++ {
		// WebPages: read { yield WEB_PAGE; }  write { assert(FALSE); yield $value; }
		fsRoot := &mpIdxRoot{MRes: M(st, "fs", 0, NoR, NoW), leaf: func(idx tla.Value) *MRes {
			return M(st, "fs", 0, func(iface distsys.ArchetypeInterface, _ []tla.Value, c tla.Value) (tla.Value, tla.Value, error) {
				page := N(lbWebPage)
				if !o.Exact {
					page = lbPage(idx)
				}
				mpSet(st, iface, "file_systemRead", page)
				return c, page, nil
			}, NoW)
		}}
		servers[i] = s.Add(N(i), loadbalancer.AServer, map[string]string{"msg": "msg"}, fmt.Sprintf("server%d", i),
			append(consts, mailboxes("mailboxesWrite1", "mailboxesRead0"), distsys.EnsureArchetypeRefParam("file_system", fsRoot))...)
	}
	clients := map[int]*Proc{}
	for c := ns + 1; c <= ns+ncl; c++ {
		instream := M(st, "in", 0, func(iface distsys.ArchetypeInterface, _ []tla.Value, cell tla.Value) (tla.Value, tla.Value, error) {
			y := cell
			if !o.Exact {
				k := int(st.Cur["__pathctr"].AsNumber()) + 1
				mpSet(st, iface, "__pathctr", N(k))
				y = N(k)
			}
			mpSet(st, iface, "instreamRead", y)
			return cell, y, nil
		}, PlainW)
		outstream := M(st, "out", 0, PlainR, func(iface distsys.ArchetypeInterface, _ []tla.Value, _ tla.Value, v tla.Value) (tla.Value, error) {
			mpSet(st, iface, "outstreamWrite", v)
			return v, nil
		})
		clients[c] = s.Add(N(c), loadbalancer.AClient, map[string]string{"req": "req", "resp": "resp"}, fmt.Sprintf("client%d", c),
			append(consts, mailboxes("mailboxesWrite3", "mailboxesRead1"),
				distsys.EnsureArchetypeRefParam("instream", instream), distsys.EnsureArchetypeRefParam("outstream", outstream))...)
	}
	sim := &Sim{Name: "loadbalancer", Sched: s, SpecFiles: []string{repoPath("systems/loadbalancer/load_balancer.tla")}, Module: "load_balancer",
		Constants: []string{fmt.Sprintf("BUFFER_SIZE = %d", bs), fmt.Sprintf("LoadBalancerId = %d", lbID), fmt.Sprintf("NUM_SERVERS = %d", ns),
			fmt.Sprintf("NUM_CLIENTS = %d", ncl), fmt.Sprintf("GET_PAGE = %d", lbGetPage), fmt.Sprintf("WEB_PAGE = %d", lbWebPage)},
		Invariants: []string{"BuffersOk"},
		Params:     map[string]any{"NUM_SERVERS": ns, "NUM_CLIENTS": ncl, "BUFFER_SIZE": bs, "exact": o.Exact, "observed": obs}, MaxSteps: 500}

	// ---------------- monitors ----------------
	type reqInfo struct {
		path     tla.Value
		servedBy []int
	}
	open := map[int]*reqInfo{} // client -> its outstanding request
	requests, answered := 0, 0
	clientID := func(m tla.Value) (int, bool) {
		if !m.IsFunction() || !HasFld(m, "client_id") || !Fld(m, "client_id").IsNumber() {
			return 0, false
		}
		return int(Fld(m, "client_id").AsNumber()), true
	}
	queue := func(i int) []tla.Value { return mpSeq(st.Get("network").ApplyFunction(N(i))) }
	sim.Monitor = func(step Step) []Violation {
		var vs []Violation
		bad := func(key, f string, a ...any) {
			vs = append(vs, Violation{"C16:loadbalancer:" + key, fmt.Sprintf("[NUM_SERVERS=%d NUM_CLIENTS=%d BUFFER_SIZE=%d exact=%v step %d %s(%s)] ", ns, ncl, bs, o.Exact, step.N, step.Label, step.Proc.Self.String()) + fmt.Sprintf(f, a...)})
		}
		if d := mir.check(); d != "" {
			bad("harness:mirror", "%s", d)
		}
		self := int(step.Proc.Self.AsNumber())
		// BuffersOk == \A node \in DOMAIN network : Len(network[node]) >= 0 /\ Len(network[node]) <= BUFFER_SIZE
		for i := 0; i <= ns+ncl; i++ {
			if n := len(queue(i)); n == bs {
				obs["states_with_a_full_buffer"]++
			} else if n > bs {
				bad("BuffersOk", "Len(network[%d]) = %d > BUFFER_SIZE = %d", i, n, bs)
			}
		}
		switch step.Label {
		case "AClient.clientRequest":
			req := step.Proc.Local("req")
			requests++
			if open[self] != nil {
				bad("request-while-outstanding", "client %d sent a request while its previous one (path %s) is unanswered", self, open[self].path.String())
			}
			open[self] = &reqInfo{path: Fld(req, "path")}
		case "AServer.sendPage":
			m := step.Proc.Local("msg")
			if c, ok := clientID(m); ok && open[c] != nil && (o.Exact || open[c].path.Equal(Fld(m, "path"))) {
				open[c].servedBy = append(open[c].servedBy, self)
				if len(open[c].servedBy) > 1 {
					bad("answered-by-two-servers", "request of client %d (path %s) answered by servers %v", c, open[c].path.String(), open[c].servedBy)
				}
			} else {
				bad("answer-without-request", "server %d sent a page for %s, which is no outstanding request", self, m.String())
			}
		case "AClient.clientReceive":
			resp := st.Get("out")
			ri := open[self]
			if ri == nil {
				bad("response-without-request", "client %d consumed response %s without an outstanding request", self, resp.String())
				break
			}
			answered++
			obs["requests_answered"]++
			want := N(lbWebPage)
			if !o.Exact {
				want = lbPage(ri.path)
			}
			if !resp.Equal(want) {
				bad("response-mismatch", "client %d requested path %s and received %s, expected %s", self, ri.path.String(), resp.String(), want.String())
			}
			if len(ri.servedBy) != 1 {
				bad("not-answered-by-exactly-one-server", "request of client %d (path %s) was consumed as answered, servers that answered it: %v", self, ri.path.String(), ri.servedBy)
			}
			open[self] = nil
		}
		// conservation: the request of a client waiting in clientReceive is at exactly one place (load balancer's
		// queue, held by the load balancer, a server's queue, held by a server, or as a page in the client's
		// mailbox); a client that is not waiting has nothing anywhere
		where := map[int][]string{}
		for _, m := range queue(lbID) {
			if c, ok := clientID(m); ok {
				where[c] = append(where[c], "network[LoadBalancerId]")
			} else {
				bad("malformed-message", "network[LoadBalancerId] holds %s", m.String())
			}
		}
		if lb.TLAPC() == "sendServer" {
			if c, ok := clientID(lb.Local("msg")); ok {
				where[c] = append(where[c], "held by the load balancer")
			}
		}
		for i := 1; i <= ns; i++ {
			for _, m := range queue(i) {
				if c, ok := clientID(m); ok {
					where[c] = append(where[c], fmt.Sprintf("network[%d]", i))
				} else {
					bad("malformed-message", "network[%d] holds %s", i, m.String())
				}
			}
			if servers[i].TLAPC() == "sendPage" {
				if c, ok := clientID(servers[i].Local("msg")); ok {
					where[c] = append(where[c], fmt.Sprintf("held by server %d", i))
				}
			}
		}
		for c := ns + 1; c <= ns+ncl; c++ {
			for range queue(c) {
				where[c] = append(where[c], fmt.Sprintf("page in network[%d]", c))
			}
			want := 0
			if clients[c].TLAPC() == "clientReceive" {
				want = 1
			}
			if len(where[c]) != want {
				bad("conservation", "client %d at %s: its request/response is at %d places %v, expected %d", c, clients[c].TLAPC(), len(where[c]), where[c], want)
			}
			delete(where, c)
		}
		for c, w := range where {
			bad("message-for-unknown-client", "messages for client id %d at %v", c, w)
		}
		return vs
	}
	_ = answered
	return sim
}

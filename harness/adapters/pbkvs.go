package adapters

import (
	"fmt"
	"math/rand"
	"sort"

	. "verifh/simsched"

	"github.com/DistCompiler/pgo/distsys"
	"github.com/DistCompiler/pgo/distsys/tla"
	"github.com/DistCompiler/pgo/distsys/trace"
	"github.com/DistCompiler/pgo/systems/pbkvs"
)

// PbkvsOpts configures a simulated primary-backup store.
type PbkvsOpts struct {
	NR, NC   int
	Exact    bool // spec-exact client input (shared channel with the spec's three requests, single key)
	Keys     int
	PutPct   uint
	MaxOps   int  // per client (exact=false)
	CrashPct uint // probability (percent) that a mayFail branch chosen by the section is allowed to fire
	MaxCrash int  // at most this many replicas crash (< NR: one survives)
	// CrashFocus "mid-replication": crashes are only allowed while a primary is between the sends of
	// sndReplicaReqLoop / sndSyncReqLoop or waiting in rcvReplicaRespLoop (some backups have the update, some not).
	CrashFocus string
}

// PbkvsSim is a pbkvs Sim plus its client history.
type PbkvsSim struct {
	*Sim
	Opts    PbkvsOpts
	hist    *raftHist
	Crashes int
	// PrimaryAnswers counts states in which the primary was at sndResp (where ConsistencyOK is evaluated).
	PrimaryAnswers int
}

func (p *PbkvsSim) History() []HistOp {
	var out []HistOp
	out = append(out, p.hist.committed.done...)
	var cs []int
	for c := range p.hist.committed.pending {
		cs = append(cs, c)
	}
	sort.Ints(cs)
	for _, c := range cs {
		o := *p.hist.committed.pending[c]
		o.Ret = -1
		out = append(out, o)
	}
	return out
}

func init() {
	Register(Factory{Name: "pbkvs", Tags: []string{"c02"}, New: func(seed int64, exact bool, rng *rand.Rand) *Sim {
		nr := 1 + rng.Intn(3)
		return Pbkvs(seed, PbkvsOpts{NR: nr, NC: 1 + rng.Intn(2), Exact: true, CrashPct: 15, MaxCrash: nr - 1}).Sim
	}})
}

// Pbkvs builds the generated primary-backup KV store with the spec's instantiation (PerfectFD, LeaderElection =
// smallest live replica, FileSystem cells).
func Pbkvs(seed int64, o PbkvsOpts) *PbkvsSim {
	if o.Keys == 0 {
		o.Keys = 1
	}
	if o.PutPct == 0 {
		o.PutPct = 60
	}
	NR, NC := o.NR, o.NC
	consts := []distsys.MPCalContextConfigFn{
		distsys.DefineConstantValue("NUM_REPLICAS", N(NR)), distsys.DefineConstantValue("NUM_CLIENTS", N(NC)),
		distsys.DefineConstantValue("DEBUG", B(false)), distsys.DefineConstantValue("EXPLORE_FAIL", B(true)),
	}
	ci := distsys.NewMPCalContextWithoutArchetype(consts...).IFace()
	repSet := pbkvs.REPLICA_SET(ci)
	keyName := func(i int) string {
		if i == 0 {
			return "KEY1"
		}
		return fmt.Sprintf("KEY%d", i+1)
	}
	keySet := pbkvs.KEY_SET(ci)
	if !o.Exact {
		var ks []tla.Value
		for i := 0; i < o.Keys; i++ {
			ks = append(ks, S(keyName(i)))
		}
		keySet = Set(ks...)
	}
	put := func(v string) tla.Value {
		return Rec("typ", pbkvs.PUT_REQ(ci), "body", Rec("key", pbkvs.KEY1(ci), "value", S(v)))
	}
	st := NewStore()
	st.Init("network", tla.MakeFunction([]tla.Value{pbkvs.NODE_SET(ci), pbkvs.MSG_INDEX_SET(ci)}, func([]tla.Value) tla.Value {
		return Rec("queue", Tup(), "enabled", B(true))
	}))
	st.Init("fd", Fn(repSet, K(B(false))))
	st.Init("fs", Fn(repSet, K(Fn(keySet, K(S(""))))))
	st.Init("primary", repSet)
	st.Init("clientInput", Tup(put("VALUE1"), put("VALUE2"), Rec("typ", pbkvs.GET_REQ(ci), "body", Rec("key", pbkvs.KEY1(ci)))))
	st.Init("clientOutput", tla.Value{})
	s := NewSched(seed, st)
	hist := &raftHist{}
	hist.cur = histState{pending: map[int]*HistOp{}, putCount: map[int]int{}, opCount: map[int]int{}}
	hist.committed = hist.cur.clone()
	st.Aux = append(st.Aux, hist)
	ps := &PbkvsSim{Opts: o, hist: hist}

	fifoR := func(_ distsys.ArchetypeInterface, _ []tla.Value, c tla.Value) (tla.Value, tla.Value, error) {
		if !Fld(c, "enabled").AsBool() {
			return c, c, fmt.Errorf("%w: network enabled (ReliableFIFOLink read)", distsys.ErrAssertionFailed)
		}
		q := Fld(c, "queue")
		if q.AsTuple().Len() == 0 {
			return c, c, ErrAbort
		}
		return Rec("queue", tla.ModuleTail(q), "enabled", Fld(c, "enabled")), tla.ModuleHead(q), nil
	}
	fifoW := func(_ distsys.ArchetypeInterface, _ []tla.Value, c, v tla.Value) (tla.Value, error) {
		if !Fld(c, "enabled").AsBool() {
			return c, ErrAbort
		}
		return Rec("queue", tla.ModuleAppend(Fld(c, "queue"), v), "enabled", Fld(c, "enabled")), nil
	}
	toggleR := func(_ distsys.ArchetypeInterface, _ []tla.Value, c tla.Value) (tla.Value, tla.Value, error) {
		return c, Fld(c, "enabled"), nil
	}
	alive := func() int {
		n := 0
		for i := 1; i <= NR; i++ {
			if Fld(st.Cur["network"].ApplyFunction(Tup(N(i), N(1))), "enabled").AsBool() {
				n++
			}
		}
		return n
	}
	toggleW := func(iface distsys.ArchetypeInterface, path []tla.Value, c, v tla.Value) (tla.Value, error) {
		// mayFail disables <<self, REQ_INDEX>> first, then <<self, RESP_INDEX>>: the oracle decides on the first
		if !v.AsBool() && Fld(c, "enabled").AsBool() && path[0].ApplyFunction(N(2)).Equal(N(1)) {
			// environment restriction: the crash oracle. A mayFail branch fires only with probability CrashPct,
			// never beyond MaxCrash crashes and never for the last live replica (the property's quantifier).
			crashed := NR - alive()
			if o.CrashFocus == "mid-replication" {
				cur := s.Current()
				pc := cur.PC()
				mid := (pc == "AReplica.sndReplicaReqLoop" || pc == "AReplica.sndSyncReqLoop") && cur.Local("idx").IsNumber() && cur.Local("idx").AsNumber() >= 2
				if !(mid || pc == "AReplica.rcvReplicaRespLoop") {
					return c, ErrAbort
				}
			}
			if alive() <= 1 || crashed >= o.MaxCrash || iface.NextFairnessCounter("crash.oracle", 100) >= o.CrashPct {
				return c, ErrAbort
			}
		}
		return Rec("queue", Fld(c, "queue"), "enabled", v), nil
	}
	lenR := func(_ distsys.ArchetypeInterface, _ []tla.Value, c tla.Value) (tla.Value, tla.Value, error) {
		return c, tla.ModuleLen(Fld(c, "queue")), nil
	}
	leR := func(_ distsys.ArchetypeInterface, _ []tla.Value, c tla.Value) (tla.Value, tla.Value, error) {
		es := Elems(c)
		if len(es) == 0 {
			return c, N(0), nil
		}
		return c, es[0], nil // numeric order: the smallest
	}
	leW := func(_ distsys.ArchetypeInterface, _ []tla.Value, c, v tla.Value) (tla.Value, error) {
		return tla.ModuleBackslashSymbol(c, Set(v)), nil
	}
	chanR := func(_ distsys.ArchetypeInterface, _ []tla.Value, c tla.Value) (tla.Value, tla.Value, error) {
		if c.AsTuple().Len() == 0 {
			return c, c, ErrAbort
		}
		return tla.ModuleTail(c), tla.ModuleHead(c), nil
	}
	chanW := func(_ distsys.ArchetypeInterface, _ []tla.Value, c, v tla.Value) (tla.Value, error) {
		return tla.ModuleAppend(c, v), nil
	}
	// exact=false: per-client request generator with unique Put values
	inputR := func(iface distsys.ArchetypeInterface, _ []tla.Value, c tla.Value) (tla.Value, tla.Value, error) {
		cl := int(iface.Self().AsNumber())
		hist.touched = true
		h := &hist.cur
		if o.MaxOps > 0 && h.opCount[cl] >= o.MaxOps {
			return c, c, ErrAbort
		}
		h.opCount[cl]++
		key := keyName(int(iface.NextFairnessCounter("req.key", uint(o.Keys))))
		if iface.NextFairnessCounter("req.put", 100) < o.PutPct {
			h.putCount[cl]++
			v := fmt.Sprintf("c%d-%d", cl, h.putCount[cl])
			h.pending[cl] = &HistOp{Client: cl, Put: true, Key: key, Val: v, Call: int64(s.Steps + 1), ReqIdx: h.opCount[cl]}
			return c, Rec("typ", pbkvs.PUT_REQ(ci), "body", Rec("key", S(key), "value", S(v))), nil
		}
		h.pending[cl] = &HistOp{Client: cl, Key: key, Call: int64(s.Steps + 1), ReqIdx: h.opCount[cl]}
		return c, Rec("typ", pbkvs.GET_REQ(ci), "body", Rec("key", S(key))), nil
	}
	outputW := func(iface distsys.ArchetypeInterface, _ []tla.Value, _ tla.Value, v tla.Value) (tla.Value, error) {
		if !o.Exact {
			cl := int(iface.Self().AsNumber())
			hist.touched = true
			h := &hist.cur
			if p := h.pending[cl]; p != nil {
				op := *p
				if !op.Put {
					op.Val = v.AsString()
					op.OK = op.Val != ""
				}
				op.Ret = int64(s.Steps + 1)
				h.done = append(h.done, op)
				delete(h.pending, cl)
			}
		}
		return v, nil
	}

	id := func(names ...string) map[string]string {
		m := map[string]string{}
		for _, x := range names {
			m[x] = x
		}
		return m
	}
	var replicas []*Proc
	for i := 1; i <= NR; i++ {
		cfg := append(append([]distsys.MPCalContextConfigFn{}, consts...),
			distsys.EnsureArchetypeRefParam("net", M(st, "network", 1, fifoR, fifoW)),
			distsys.EnsureArchetypeRefParam("fs", M(st, "fs", 2, PlainR, PlainW)),
			distsys.EnsureArchetypeRefParam("fd", M(st, "fd", 1, PlainR, PlainW)),
			distsys.EnsureArchetypeRefParam("netEnabled", M(st, "network", 1, toggleR, toggleW)),
			distsys.EnsureArchetypeRefParam("primary", M(st, "primary", 0, leR, leW)),
			distsys.EnsureArchetypeRefParam("netLen", M(st, "network", 1, lenR, NoW)))
		p := s.Add(N(i), pbkvs.AReplica, id("req", "respBody", "respTyp", "idx", "repReq", "repResp", "resp", "replicaSet", "shouldSync", "lastPutBody", "replica"), fmt.Sprintf("rep%d", i), cfg...)
		replicas = append(replicas, p)
	}
	for c := 1; c <= NC; c++ {
		in, out := M(st, "clientInput", 0, chanR, chanW), M(st, "clientOutput", 0, PlainR, PlainW)
		if !o.Exact {
			in, out = M(st, "clientInput", 0, inputR, NoW), M(st, "clientOutput", 0, PlainR, outputW)
		}
		cfg := append(append([]distsys.MPCalContextConfigFn{}, consts...),
			distsys.EnsureArchetypeRefParam("net", M(st, "network", 1, fifoR, fifoW)),
			distsys.EnsureArchetypeRefParam("fd", M(st, "fd", 1, PlainR, PlainW)),
			distsys.EnsureArchetypeRefParam("primary", M(st, "primary", 0, leR, leW)),
			distsys.EnsureArchetypeRefParam("netLen", M(st, "network", 1, lenR, NoW)),
			distsys.EnsureArchetypeRefParam("input", in),
			distsys.EnsureArchetypeRefParam("output", out))
		s.Add(N(NR+c), pbkvs.AClient, map[string]string{"req": "req0", "resp": "resp0", "msg": "msg", "replica": "replica0", "idx": "idx0"}, "client", cfg...)
	}
	s.IdleRounds = 6
	sim := &Sim{Name: "pbkvs", Sched: s, SpecFiles: []string{repoPath("systems/pbkvs/pbkvs.tla")}, Module: "pbkvs",
		Constants:  []string{fmt.Sprintf("NUM_REPLICAS = %d", NR), fmt.Sprintf("NUM_CLIENTS = %d", NC), "DEBUG = FALSE", "EXPLORE_FAIL = TRUE"},
		Invariants: []string{"ConsistencyOK"},
		Params:     map[string]any{"NUM_REPLICAS": NR, "NUM_CLIENTS": NC, "exact": o.Exact, "keys": o.Keys, "crash_pct": o.CrashPct, "max_crash": o.MaxCrash},
		MaxSteps:   600}
	ps.Sim = sim
	wasAlive := make([]bool, NR+1)
	for i := range wasAlive {
		wasAlive[i] = true
	}
	sim.Monitor = func(step Step) []Violation {
		var vs []Violation
		// ConsistencyOK as written in pbkvs.tla
		isAlive := func(p *Proc) bool { pc := p.TLAPC(); return pc != "failLabel" && pc != "Done" }
		var primary *Proc
		for _, p := range replicas {
			if isAlive(p) {
				primary = p
				break
			}
		}
		for i, p := range replicas {
			a := isAlive(p)
			if wasAlive[i+1] && !a {
				ps.Crashes++
			}
			wasAlive[i+1] = a
		}
		if primary != nil && primary.TLAPC() == "sndResp" {
			ps.PrimaryAnswers++
			pfs := st.Get("fs").ApplyFunction(primary.Self)
			for _, p := range replicas {
				if isAlive(p) && !st.Get("fs").ApplyFunction(p.Self).Equal(pfs) {
					vs = append(vs, Violation{"C14:sim:ConsistencyOK", fmt.Sprintf("after commit %d (%s by %s): primary %s is about to answer with store %s but live replica %s holds %s",
						step.N, step.Label, step.Proc.Self.String(), primary.Self.String(), pfs.String(), p.Self.String(), st.Get("fs").ApplyFunction(p.Self).String())})
				}
			}
		}
		if step.Label == "AClient.sndReq" && !o.Exact {
			sent := false
			for _, e := range step.Elems {
				if w, ok := e.(trace.WriteElement); ok && w.Name == "net" {
					sent = true
				}
			}
			if sent {
				cl := int(step.Proc.Self.AsNumber())
				for _, h := range []*histState{&hist.cur, &hist.committed} {
					if p := h.pending[cl]; p != nil {
						p.Retries = append(p.Retries, int64(step.N))
					}
				}
			}
		}
		return vs
	}
	return ps
}

package adapters

// Step-wise validation of recorded runs of gotests Sims with TLC, batched: ONE TLC process decides, for every
// recorded step (s_i, s_i+1) of every run of a batch (same artefact, same constants), whether it is a step of the
// translation's Next, and for every first state whether it satisfies Init. Every step is checked on its own
// (pre-state pinned as an initial state, successor pinned by primed equalities), so one run yields ALL
// disagreeing steps, not just the first, and a trace is "fully accepted" iff its first state satisfies Init and
// every step is accepted — which is the same as the chained check of tlc.CheckTrace because consecutive steps
// share their middle state. When TLC raises an error while evaluating Next from some pre-state (assertion of the
// artefact, evaluation error such as arithmetic on defaultInitValue) the offending step is identified from the
// error trace (it carries the batch's tag variables), recorded, excluded, and TLC is run again.
// The way a Go run ended (assertion failure, evaluation panic) is compared with what the artefact does in the
// last state by a probe step (last, last) that is expected to make TLC raise the corresponding error.
//
// This is a second TLC job shape next to tlc.CheckTrace (proposed for package tlc as CheckSteps, see NOTES.md).

import (
	"context"
	"errors"
	"fmt"
	"os"
	"os/exec"
	"path/filepath"
	"regexp"
	"sort"
	"strconv"
	"strings"
	"time"

	"github.com/DistCompiler/pgo/distsys"
)

// GotestsRejection is one disagreement between the generated Go and the artefact.
type GotestsRejection struct {
	Kind    string `json:"kind"`     // step-not-in-Next | init | spec-asserts-go-commits | spec-eval-error-go-commits | go-asserts-spec-does-not | go-fails-spec-steps
	At      int    `json:"at"`       // 1-based index of the pre-state in the recorded trace (0 for init)
	Step    string `json:"step"`     // "Arch(self)@label"
	GoLabel string `json:"go_label"` // label executed
	Before  string `json:"state_before"`
	After   string `json:"state_after"`
	Detail  string `json:"detail"`
	Key     string `json:"key"`
}

// GotestsReport is the outcome of validating one run.
type GotestsReport struct {
	StepsRecorded  int
	StepsAccepted  int // steps TLC accepted as steps of Next
	FullyAccepted  bool
	InitChecked    bool // the first state was checked against the artefact's Init
	Rejections     []GotestsRejection
	Inconclusive   []string
	EndAgreement   string // how the end of the Go run compares ("", "both-assert", "both-fail-to-evaluate")
	RelaxedStart   bool
	GoError        string
	HarnessNotes   []string
	LabelsAccepted map[string]int // Go label -> accepted steps
}

// GotestsCase is one recorded run handed to the batch validator.
type GotestsCase struct {
	Sim *Sim
	Out Outcome
}

// GotestsBatchStats describes the TLC work of one batch validation.
type GotestsBatchStats struct {
	TLCCalls int
	TLCWall  time.Duration
	Groups   int
}

func gtStepLabel(step string) string {
	if i := strings.LastIndex(step, "@"); i >= 0 {
		return step[i+1:]
	}
	return step
}

// GotestsValidateAll validates one run (a batch of one).
func GotestsValidateAll(sim *Sim, scratch string, out Outcome, timeout time.Duration) GotestsReport {
	reps, _ := GotestsValidateBatch(scratch, []GotestsCase{{sim, out}}, timeout)
	return reps[0]
}

type gtBatchTrace struct {
	caseIdx int
	states  []string
	acts    []GotestsAct // one per step
	relaxed bool
	probe   bool // (last,last) probe for the end of the Go run
	dupOf   int  // index of an identical earlier trace of the group, or -1
}

func (t gtBatchTrace) sig() string {
	var b strings.Builder
	fmt.Fprintf(&b, "%v|%v|", t.relaxed, t.probe)
	for _, a := range t.acts {
		b.WriteString(a.Self + "@" + a.Label + ";")
	}
	b.WriteString(strings.Join(t.states, "\x00"))
	return b.String()
}

// GotestsValidateBatch validates the runs; cases are grouped by artefact and constants, one TLC process per group
// (when the artefact raises evaluation errors the group is split into one TLC process per trace, re-run once per
// error). Reports are returned in the order of cases.
func GotestsValidateBatch(scratch string, cases []GotestsCase, timeout time.Duration) ([]GotestsReport, GotestsBatchStats) {
	reps := make([]GotestsReport, len(cases))
	var stats GotestsBatchStats
	groups := map[string][]int{}
	var order []string
	for i, c := range cases {
		x := GotestsExtraOf(c.Sim)
		reps[i] = GotestsReport{StepsRecorded: len(c.Out.States) - 1, LabelsAccepted: map[string]int{}}
		if x == nil || len(c.Out.States) == 0 {
			reps[i].StepsRecorded = 0
			reps[i].Inconclusive = append(reps[i].Inconclusive, "no states recorded")
			continue
		}
		if len(x.Acts) != len(c.Out.States)-1 {
			reps[i].Inconclusive = append(reps[i].Inconclusive, fmt.Sprintf("harness: %d actions recorded for %d steps", len(x.Acts), len(c.Out.States)-1))
			continue
		}
		reps[i].RelaxedStart = x.Relaxed
		reps[i].InitChecked = !x.Relaxed
		reps[i].HarnessNotes = append(reps[i].HarnessNotes, x.Notes...)
		if err := c.Out.Result.Err; err != nil && !c.Out.Result.MonitorErr {
			reps[i].GoError = err.Error()
		}
		k := c.Sim.Module + "|" + strings.Join(c.Sim.Constants, ";") + "|" + strings.Join(x.Vars(), ",")
		if _, ok := groups[k]; !ok {
			order = append(order, k)
		}
		groups[k] = append(groups[k], i)
	}
	for _, k := range order {
		stats.Groups++
		gtValidateGroup(scratch, cases, groups[k], reps, &stats, timeout)
	}
	for i := range reps {
		r := &reps[i]
		r.FullyAccepted = len(r.Rejections) == 0 && len(r.Inconclusive) == 0 && r.StepsAccepted == r.StepsRecorded && r.StepsRecorded >= 0
	}
	return reps, stats
}

var (
	gtReStep  = regexp.MustCompile(`(?m)^<<"VERIFSTEP", (\d+), (\d+)>>`)
	gtReInit  = regexp.MustCompile(`(?m)^<<"VERIFINIT", (\d+), (TRUE|FALSE)>>`)
	gtReTagN  = regexp.MustCompile(`(?m)^/\\ vtn = (\d+)`)
	gtReTagI  = regexp.MustCompile(`(?m)^/\\ vti = (\d+)`)
	gtReError = regexp.MustCompile(`(?m)^Error: `)
)

type gtErrAt struct{ kind, detail string }

// gtSolved is what TLC said about a set of traces (keys: index into the group's trace list, 1-based pre-state index).
type gtSolved struct {
	accepted map[[2]int]bool
	raised   map[[2]int]gtErrAt
	initOK   map[int]string
	failed   map[int]string // trace -> why undecided
	calls    int
	wall     time.Duration
}

// gtActionArity finds out whether label L is an action of the translation and whether it takes self.
func gtActionArity(text, label string) (defined, withSelf bool) {
	if regexp.MustCompile(`(?m)^` + regexp.QuoteMeta(label) + `\(self\) == `).MatchString(text) {
		return true, true
	}
	if regexp.MustCompile(`(?m)^` + regexp.QuoteMeta(label) + ` == `).MatchString(text) {
		return true, false
	}
	return false, false
}

// gtSolve runs TLC on the traces sel (indices into traces); every evaluation error costs one more TLC run; when
// the first error shows up in a multi-trace batch the batch is split into one (parallel) TLC process per trace.
func gtSolve(scratch string, sim *Sim, text string, vars []string, traces []gtBatchTrace, sel []int, timeout time.Duration) gtSolved {
	res := gtSolved{accepted: map[[2]int]bool{}, raised: map[[2]int]gtErrAt{}, initOK: map[int]string{}, failed: map[int]string{}}
	failAll := func(why string) gtSolved {
		for _, t := range sel {
			res.failed[t] = why
		}
		return res
	}
	// labels the translation does not define cannot be asked about
	for _, t := range sel {
		for i, a := range traces[t].acts {
			if def, _ := gtActionArity(text, a.Label); !def {
				res.raised[[2]int{t, i + 1}] = gtErrAt{"nolabel", fmt.Sprintf("the translation defines no action %q", a.Label)}
			}
		}
	}
	for attempt := 0; attempt <= 40; attempt++ {
		out, wall, timedOut, err := gtRunTLCBatch(scratch, sim, text, vars, traces, sel, res.raised, timeout)
		res.calls++
		res.wall += wall
		if err != nil || timedOut {
			return failAll(fmt.Sprintf("tlc batch: timeout=%v err=%v", timedOut, err))
		}
		if strings.Contains(out, "Model checking completed. No error has been found") {
			for _, m := range gtReStep.FindAllStringSubmatch(out, -1) {
				n, _ := strconv.Atoi(m[1])
				i, _ := strconv.Atoi(m[2])
				res.accepted[[2]int{sel[n-1], i}] = true
			}
			for _, m := range gtReInit.FindAllStringSubmatch(out, -1) {
				n, _ := strconv.Atoi(m[1])
				res.initOK[sel[n-1]] = m[2]
			}
			return res
		}
		loc := gtReError.FindStringIndex(out)
		if loc == nil {
			return failAll("tlc batch failed: " + gtTailStr(out, 1500))
		}
		tail := out[loc[0]:]
		ns := gtReTagN.FindAllStringSubmatch(tail, -1)
		is := gtReTagI.FindAllStringSubmatch(tail, -1)
		if len(ns) == 0 || len(is) == 0 {
			return failAll("tlc batch failed: " + gtTailStr(out, 1500))
		}
		n, _ := strconv.Atoi(ns[len(ns)-1][1])
		i, _ := strconv.Atoi(is[len(is)-1][1])
		if n < 1 || n > len(sel) {
			return failAll("tlc batch failed: " + gtTailStr(out, 1500))
		}
		kind := "error"
		if strings.Contains(tail, "The first argument of Assert evaluated to FALSE") || strings.Contains(tail, "Failure of assertion") {
			kind = "assert"
		}
		key := [2]int{sel[n-1], i}
		if _, dup := res.raised[key]; dup {
			return failAll("tlc raised an error twice at the same step: " + gtTailStr(tail, 800))
		}
		res.raised[key] = gtErrAt{kind, gtErrLines(tail)}
		if len(sel) > 1 { // split: one TLC process per trace from now on
			type sub struct {
				t int
				r gtSolved
			}
			ch := make(chan sub, len(sel))
			sem := make(chan struct{}, 4)
			for _, t := range sel {
				t := t
				go func() {
					sem <- struct{}{}
					defer func() { <-sem }()
					ch <- sub{t, gtSolve(scratch, sim, text, vars, traces, []int{t}, timeout)}
				}()
			}
			for range sel {
				sb := <-ch
				for k, v := range sb.r.accepted {
					res.accepted[k] = v
				}
				for k, v := range sb.r.raised {
					res.raised[k] = v
				}
				for k, v := range sb.r.initOK {
					res.initOK[k] = v
				}
				for k, v := range sb.r.failed {
					res.failed[k] = v
				}
				res.calls += sb.r.calls
				res.wall += sb.r.wall
			}
			return res
		}
	}
	return failAll("tlc batch: too many evaluation errors in one trace")
}

func gtValidateGroup(scratch string, cases []GotestsCase, idx []int, reps []GotestsReport, stats *GotestsBatchStats, timeout time.Duration) {
	sim0 := cases[idx[0]].Sim
	x0 := GotestsExtraOf(sim0)
	vars := x0.Vars()
	var traces []gtBatchTrace
	for _, ci := range idx {
		c := cases[ci]
		x := GotestsExtraOf(c.Sim)
		traces = append(traces, gtBatchTrace{caseIdx: ci, states: c.Out.States, acts: x.Acts, relaxed: x.Relaxed, dupOf: -1})
		if err := c.Out.Result.Err; err != nil && !c.Out.Result.MonitorErr {
			last := c.Out.States[len(c.Out.States)-1]
			if x.EndAct != nil {
				traces = append(traces, gtBatchTrace{caseIdx: ci, states: []string{last, last}, acts: []GotestsAct{*x.EndAct}, relaxed: true, probe: true, dupOf: -1})
			} else {
				reps[ci].Inconclusive = append(reps[ci].Inconclusive, "the Go run failed but the failing label is unknown: "+err.Error())
			}
		}
	}
	seen := map[string]int{}
	var sel []int
	for t := range traces {
		sg := traces[t].sig()
		if first, ok := seen[sg]; ok {
			traces[t].dupOf = first
			continue
		}
		seen[sg] = t
		sel = append(sel, t)
	}
	res := gtSolve(scratch, sim0, x0.Spec.Text, vars, traces, sel, timeout)
	stats.TLCCalls += res.calls
	stats.TLCWall += res.wall
	mkRej := func(ci int, kind string, at int, detail string) GotestsRejection {
		c := cases[ci]
		x := GotestsExtraOf(c.Sim)
		r := GotestsRejection{Kind: kind, At: at, Detail: gtTailStr(detail, 1500)}
		if at >= 1 && at <= len(c.Out.StepLog) {
			r.Step = c.Out.StepLog[at-1]
			r.GoLabel = gtStepLabel(r.Step)
			r.Before, r.After = c.Out.States[at-1], c.Out.States[at]
		} else if at == 0 {
			r.Before = c.Out.States[0]
		} else { // end of run
			if p := c.Out.Result.ErrProc; p != nil {
				lbl := ""
				if pcv := gtLocalRaw(p, ".pc"); pcv.IsString() {
					lbl = pcv.AsString()
				}
				r.Step = fmt.Sprintf("%s(%s)@%s", p.Arch.Name, p.Self.String(), lbl)
				r.GoLabel = lbl
			}
			r.Before = c.Out.States[len(c.Out.States)-1]
		}
		r.Key = fmt.Sprintf("C02:%s:%s:%s", strings.TrimPrefix(c.Sim.Name, "gotests/"), kind, r.GoLabel)
		if x.Classify != nil {
			if k := x.Classify(r); k != "" {
				r.Key = k
			}
		}
		return r
	}
	for tn, tr := range traces {
		src := tn
		if tr.dupOf >= 0 {
			src = tr.dupOf
		}
		ci := tr.caseIdx
		c := cases[ci]
		rep := &reps[ci]
		if why, bad := res.failed[src]; bad {
			rep.Inconclusive = append(rep.Inconclusive, why)
			continue
		}
		if tr.probe {
			e, raised := res.raised[[2]int{src, 1}]
			isAssert := errors.Is(c.Out.Result.Err, distsys.ErrAssertionFailed)
			at := len(c.Out.States) + 1
			switch {
			case raised && e.kind == "nolabel":
				rep.Rejections = append(rep.Rejections, mkRej(ci, "label-not-in-translation", at, e.detail))
			case isAssert && raised && e.kind == "assert":
				rep.EndAgreement = "both-assert"
			case isAssert:
				d := "the artefact's action raises no assertion in this state"
				if raised {
					d = "the artefact's action raises an evaluation error instead: " + e.detail
				}
				rep.Rejections = append(rep.Rejections, mkRej(ci, "go-asserts-spec-does-not", at, fmt.Sprintf("go: %v; %s", c.Out.Result.Err, d)))
			case raised && e.kind == "error":
				rep.EndAgreement = "both-fail-to-evaluate"
			default:
				d := "the artefact's action evaluates without error in this state"
				if raised {
					d = "the artefact's action raises an assertion: " + e.detail
				}
				rep.Rejections = append(rep.Rejections, mkRej(ci, "go-fails-spec-steps", at, fmt.Sprintf("go: %v; %s", c.Out.Result.Err, d)))
			}
			continue
		}
		if !tr.relaxed {
			switch res.initOK[src] {
			case "TRUE":
			case "FALSE":
				rep.Rejections = append(rep.Rejections, mkRej(ci, "init", 0, "the first recorded state does not satisfy Init of the translation"))
			default:
				rep.Inconclusive = append(rep.Inconclusive, "TLC did not report the Init check of this trace")
			}
		}
		for i := 1; i < len(tr.states); i++ {
			switch e, raised := res.raised[[2]int{src, i}]; {
			case raised && e.kind == "nolabel":
				rep.Rejections = append(rep.Rejections, mkRej(ci, "label-not-in-translation", i, e.detail))
			case raised && e.kind == "assert":
				rep.Rejections = append(rep.Rejections, mkRej(ci, "spec-asserts-go-commits", i, e.detail))
			case raised:
				rep.Rejections = append(rep.Rejections, mkRej(ci, "spec-eval-error-go-commits", i, e.detail))
			case res.accepted[[2]int{src, i}]:
				rep.StepsAccepted++
				rep.LabelsAccepted[gtStepLabel(c.Out.StepLog[i-1])]++
			default:
				rep.Rejections = append(rep.Rejections, mkRej(ci, "step-not-in-Next", i, fmt.Sprintf("TLC: action %s of process %s has no step from the recorded pre-state to the recorded successor", tr.acts[i-1].Label, tr.acts[i-1].Self)))
			}
		}
	}
}

// gtRunTLCBatch writes StepBatch.tla/.cfg for the selected traces and runs TLC once.
func gtRunTLCBatch(scratch string, sim *Sim, text string, vars []string, all []gtBatchTrace, sel []int, raised map[[2]int]gtErrAt, timeout time.Duration) (string, time.Duration, bool, error) {
	start := time.Now()
	work, err := os.MkdirTemp(scratch, "tlcb-")
	if err != nil {
		return "", 0, false, err
	}
	defer os.RemoveAll(work)
	for _, f := range sim.SpecFiles {
		buf, err := os.ReadFile(f)
		if err != nil {
			return "", 0, false, err
		}
		if err := os.WriteFile(filepath.Join(work, filepath.Base(f)), buf, 0o644); err != nil {
			return "", 0, false, err
		}
	}
	var b strings.Builder
	fmt.Fprintf(&b, "---- MODULE StepBatch ----\nEXTENDS %s, TLC\nVARIABLES vtn, vti, vph\n", sim.Module)
	b.WriteString("VTraces == <<\n")
	for k, t := range sel {
		if k > 0 {
			b.WriteString(",\n")
		}
		b.WriteString("<<\n" + strings.Join(all[t].states, ",\n") + "\n>>")
	}
	b.WriteString("\n>>\nVRelaxed == <<")
	for k, t := range sel {
		if k > 0 {
			b.WriteString(", ")
		}
		b.WriteString(map[bool]string{true: "TRUE", false: "FALSE"}[all[t].relaxed])
	}
	b.WriteString(">>\nVSelf == <<")
	labels := map[string]bool{}
	for k, t := range sel {
		if k > 0 {
			b.WriteString(", ")
		}
		var ss []string
		for _, a := range all[t].acts {
			ss = append(ss, "("+a.Self+")")
		}
		b.WriteString("<<" + strings.Join(ss, ", ") + ">>")
	}
	b.WriteString(">>\nVLab == <<")
	for k, t := range sel {
		if k > 0 {
			b.WriteString(", ")
		}
		var ss []string
		for _, a := range all[t].acts {
			ss = append(ss, fmt.Sprintf("%q", a.Label))
			if def, _ := gtActionArity(text, a.Label); def {
				labels[a.Label] = true
			}
		}
		b.WriteString("<<" + strings.Join(ss, ", ") + ">>")
	}
	b.WriteString(">>\nVSkip == {")
	first := true
	for k, t := range sel {
		for i := range all[t].acts {
			if _, ok := raised[[2]int{t, i + 1}]; ok {
				if !first {
					b.WriteString(", ")
				}
				first = false
				fmt.Fprintf(&b, "<<%d, %d>>", k+1, i+1)
			}
		}
	}
	b.WriteString("}\nVAct == FALSE")
	var ls []string
	for l := range labels {
		ls = append(ls, l)
	}
	sort.Strings(ls)
	for _, l := range ls {
		if _, withSelf := gtActionArity(text, l); withSelf {
			fmt.Fprintf(&b, "\n  \\/ (VLab[vtn][vti] = %q /\\ %s(VSelf[vtn][vti]))", l, l)
		} else {
			fmt.Fprintf(&b, "\n  \\/ (VLab[vtn][vti] = %q /\\ %s)", l, l)
		}
	}
	b.WriteString("\nVInit == \\E vqn \\in 1..Len(VTraces) : \\E vqi \\in 1..Len(VTraces[vqn]) :\n  /\\ vtn = vqn /\\ vti = vqi /\\ vph = 0")
	for _, v := range vars {
		fmt.Fprintf(&b, "\n  /\\ %s = VTraces[vqn][vqi].%s", v, v)
	}
	b.WriteString("\n  /\\ ((vqi = 1 /\\ ~VRelaxed[vqn]) => PrintT(<<\"VERIFINIT\", vqn, Init>>))\n")
	b.WriteString("VNext == /\\ vph = 0 /\\ vti < Len(VTraces[vtn]) /\\ <<vtn, vti>> \\notin VSkip\n  /\\ VAct")
	for _, v := range vars {
		fmt.Fprintf(&b, "\n  /\\ %s' = VTraces[vtn][vti+1].%s", v, v)
	}
	b.WriteString("\n  /\\ vph' = 1 /\\ vtn' = vtn /\\ vti' = vti\n  /\\ PrintT(<<\"VERIFSTEP\", vtn, vti>>)\n")
	b.WriteString("VSpec == VInit /\\ [][VNext]_<<vars, vtn, vti, vph>>\n====\n")
	if err := os.WriteFile(filepath.Join(work, "StepBatch.tla"), []byte(b.String()), 0o644); err != nil {
		return "", 0, false, err
	}
	var c strings.Builder
	c.WriteString("CONSTANT defaultInitValue = defaultInitValue\n")
	for _, k := range sim.Constants {
		fmt.Fprintf(&c, "CONSTANT %s\n", k)
	}
	c.WriteString("SPECIFICATION VSpec\nCHECK_DEADLOCK FALSE\n")
	if err := os.WriteFile(filepath.Join(work, "StepBatch.cfg"), []byte(c.String()), 0o644); err != nil {
		return "", 0, false, err
	}
	if timeout == 0 {
		timeout = 5 * time.Minute
	}
	ctx, cancel := context.WithTimeout(context.Background(), timeout)
	defer cancel()
	cmd := exec.CommandContext(ctx, "java", "-XX:+UseSerialGC", "-Xmx2g", "-cp",
		"/opt/veriftools/tla/tla2tools.jar:/opt/veriftools/tla/CommunityModules-deps.jar", "tlc2.TLC",
		"-workers", "1", "-metadir", filepath.Join(work, "states"), "-config", "StepBatch.cfg", "StepBatch.tla")
	cmd.Dir = work
	out, _ := cmd.CombinedOutput()
	if keep := os.Getenv("GOTESTS_KEEP_TLC"); keep != "" {
		ts := time.Now().UnixNano()
		os.WriteFile(filepath.Join(keep, fmt.Sprintf("StepBatch-%d.tla", ts)), []byte(b.String()), 0o644)
		os.WriteFile(filepath.Join(keep, fmt.Sprintf("StepBatch-%d.out", ts)), out, 0o644)
	}
	if ctx.Err() != nil {
		return string(out), time.Since(start), true, nil
	}
	return string(out), time.Since(start), false, nil
}

// gtErrLines extracts TLC's description of an evaluation error: the message and the innermost position inside
// the artefact.
func gtErrLines(detail string) string {
	lines := strings.Split(detail, "\n")
	var msg []string
	started := false
	for _, l := range lines {
		t := strings.TrimSpace(l)
		if strings.HasPrefix(t, "Error: The behavior up to this point") || strings.HasPrefix(t, "State ") {
			break
		}
		if strings.HasPrefix(t, "Error:") {
			started = true
		}
		if started && t != "" {
			msg = append(msg, t)
		}
	}
	pos := ""
	for _, l := range lines {
		t := strings.TrimSpace(l)
		if m := gtRePos.FindStringSubmatch(t); m != nil && m[2] != "StepBatch" {
			pos = m[1] + " in " + m[2]
		}
	}
	out := strings.Join(msg, " ")
	if pos != "" {
		out += " [innermost position in the artefact: " + pos + "]"
	}
	if out == "" {
		return gtTailStr(detail, 600)
	}
	return gtTailStr(out, 1200)
}

var gtRePos = regexp.MustCompile(`^\d+\. (Line \d+, column \d+ to line \d+, column \d+) in (\w+)$`)

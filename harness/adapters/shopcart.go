package adapters

import (
	"fmt"
	"math/rand"
	"strings"

	. "verifh/simsched"

	"github.com/DistCompiler/pgo/distsys"
	"github.com/DistCompiler/pgo/distsys/tla"
	"github.com/DistCompiler/pgo/systems/shopcart"
)

// shopcart: add-wins observed-remove set (AWORSet mapping macro over crdt[_]) plus the plain PlusCal process
// UpdateCRDT = 0 that merges two replicas with different state and unions their causal histories c.
//
// The shipped translation instantiates  Node \in NodeSet == ANodeBench(ref crdt[_] via AWORSet, ref out, ref c[_])
// (the ANode instantiation is commented out in the MPCal source). exact=true runs exactly that; the elements the
// bench adds are GetVal(n, r) = r*NumNodes + (n-1), so ElemSet must contain 0..NumNodes*BenchNumRounds-1 — the shipped
// shopcart.cfg still says `ElemSet <- BenchElemSet` (pairs <<node, round>>), with which TLC fails at the first `add`
// step (function applied outside its domain); the adapter therefore passes ElemSet explicitly.
//
// exact=false runs the commented-out instantiation  ANode(ref crdt[_] via AWORSet, ref in via InputQueue, ref out)
// on a random command sequence of adds and removes over ElemSet = {"1","2","3"}; ANode does not maintain c, so the
// AWORSet write macro additionally records a unique operation id in the hidden variable __know (merged by
// UpdateCRDT like c). Such traces are not sent to TLC.

func scNull(iface distsys.ArchetypeInterface) tla.Value { return shopcart.Null(iface) }

// aworsetWrite is the write half of mapping macro AWORSet, statement by statement.
func aworsetWrite(onOp func(iface distsys.ArchetypeInterface, self, val tla.Value) error) WR {
	return func(iface distsys.ArchetypeInterface, _ []tla.Value, cell, val tla.Value) (tla.Value, error) {
		self := iface.Self()
		null := scNull(iface)
		elem := Fld(val, "elem")
		cmd := Fld(val, "cmd")
		am, rm := S("addMap"), S("remMap")
		get := func(c tla.Value, m tla.Value) tla.Value { return c.ApplyFunction(m).ApplyFunction(elem) }
		if onOp != nil {
			if err := onOp(iface, self, val); err != nil {
				return cell, err
			}
		}
		one := N(1)
		switch {
		case cmd.Equal(shopcart.AddCmd(iface)):
			if !get(cell, am).Equal(null) {
				cell = Except(cell, tla.ModulePlusSymbol(get(cell, am).ApplyFunction(self), one), am, elem, self)
				cell = Except(cell, null, rm, elem)
			} else if !get(cell, rm).Equal(null) {
				cell = Except(cell, tla.ModulePlusSymbol(get(cell, rm).ApplyFunction(self), one), am, elem, self)
				cell = Except(cell, null, rm, elem)
			} else {
				cell = Except(cell, one, am, elem, self)
			}
		case cmd.Equal(shopcart.RemoveCmd(iface)):
			if !get(cell, rm).Equal(null) {
				cell = Except(cell, tla.ModulePlusSymbol(get(cell, rm).ApplyFunction(self), one), rm, elem, self)
				cell = Except(cell, null, am, elem)
			} else if !get(cell, am).Equal(null) {
				cell = Except(cell, tla.ModulePlusSymbol(get(cell, am).ApplyFunction(self), one), rm, elem, self)
				cell = Except(cell, null, am, elem)
			} else {
				cell = Except(cell, one, rm, elem, self)
			}
		}
		return cell, nil
	}
}

func aworsetRead(iface distsys.ArchetypeInterface, _ []tla.Value, c tla.Value) (tla.Value, tla.Value, error) {
	return c, shopcart.Query(iface, c), nil
}

// InputQueue mapping macro.
func inputQueueRead(_ distsys.ArchetypeInterface, _ []tla.Value, c tla.Value) (tla.Value, tla.Value, error) {
	if c.AsTuple().Len() == 0 {
		return c, c, ErrAbort
	}
	return tla.ModuleTail(c), tla.ModuleHead(c), nil
}

func inputQueueWrite(_ distsys.ArchetypeInterface, _ []tla.Value, c, v tla.Value) (tla.Value, error) {
	return tla.ModuleAppend(c, v), nil
}

// shopcartMerge is macro Merge(crdt, i1, i2) of the spec, including its assertions.
func shopcartMerge(iface distsys.ArchetypeInterface, a, b tla.Value) (tla.Value, error) {
	if a.Equal(b) {
		return a, fmt.Errorf("%w: crdt[i1] # crdt[i2]", distsys.ErrAssertionFailed)
	}
	null := scNull(iface)
	addk := shopcart.MergeKeys(iface, Fld(a, "addMap"), Fld(b, "addMap"))
	remk := shopcart.MergeKeys(iface, Fld(a, "remMap"), Fld(b, "remMap"))
	add := Fn(tla.ModuleDomainSymbol(addk), func(i tla.Value) tla.Value {
		if shopcart.CompareVectorClock(iface, addk.ApplyFunction(i), remk.ApplyFunction(i)).AsBool() {
			return null
		}
		return addk.ApplyFunction(i)
	})
	rem := Fn(tla.ModuleDomainSymbol(remk), func(i tla.Value) tla.Value {
		if shopcart.CompareVectorClock(iface, addk.ApplyFunction(i), remk.ApplyFunction(i)).AsBool() {
			return remk.ApplyFunction(i)
		}
		return null
	})
	// the remaining assertions of the macro (crdt[i1].addMap = crdt[i2].addMap, …) hold by construction:
	// both replicas are assigned the same record
	return Except(Except(a, add, S("addMap")), rem, S("remMap")), nil
}

func init() {
	Register(Factory{Name: "shopcart", Tags: []string{"c02", "c16"}, New: func(seed int64, exact bool, rng *rand.Rand) *Sim {
		if exact {
			return ShopcartBench(seed, 1+rng.Intn(3), 1+rng.Intn(2))
		}
		n := 1 + rng.Intn(4)
		l := 2 + rng.Intn(9)
		cmds := make([][2]int, l)
		for i := range cmds {
			cmds[i] = [2]int{1 + rng.Intn(2), 1 + rng.Intn(3)}
		}
		return ShopcartNode(seed, n, cmds)
	}})
}

func shopcartStore(numNodes int, elemSet tla.Value, in tla.Value) *Store {
	st := NewStore()
	nodeSet := tla.ModuleDotDotSymbol(N(1), N(numNodes))
	null := Fn(nodeSet, K(N(0)))
	st.Init("crdt", Fn(nodeSet, K(Rec("addMap", Fn(elemSet, K(null)), "remMap", Fn(elemSet, K(null))))))
	st.Init("in", in)
	st.Init("out", tla.ModuledefaultInitValue)
	st.Init("c", Fn(nodeSet, K(Set())))
	return st
}

func specIn() tla.Value {
	return Tup(Rec("cmd", N(1), "elem", S("1")), Rec("cmd", N(2), "elem", S("2")), Rec("cmd", N(1), "elem", S("2")), Rec("cmd", N(2), "elem", S("1")))
}

// ShopcartBench builds the shipped instantiation (ANodeBench + UpdateCRDT); exact.
func ShopcartBench(seed int64, numNodes, rounds int) *Sim {
	var es []tla.Value
	for e := 0; e < numNodes*rounds; e++ {
		es = append(es, N(e))
	}
	elemSet := Set(es...)
	st := shopcartStore(numNodes, elemSet, specIn())
	s := NewSched(seed, st)
	consts := []distsys.MPCalContextConfigFn{
		distsys.DefineConstantValue("NumNodes", N(numNodes)),
		distsys.DefineConstantValue("BenchNumRounds", N(rounds)),
		distsys.DefineConstantValue("ElemSet", elemSet),
	}
	var nodes []*Proc
	for i := 1; i <= numNodes; i++ {
		p := s.Add(N(i), shopcart.ANodeBench, map[string]string{"r": "r"}, "node", append(consts,
			distsys.EnsureArchetypeRefParam("crdt", M(st, "crdt", 1, aworsetRead, aworsetWrite(nil))),
			distsys.EnsureArchetypeRefParam("out", M(st, "out", 0, PlainR, PlainW)),
			distsys.EnsureArchetypeRefParam("c", M(st, "c", 1, PlainR, PlainW)))...)
		nodes = append(nodes, p)
	}
	merger := mergerArchetype("UpdateCRDT", "crdt", []string{"c"}, shopcart.NodeSet, shopcartMerge)
	s.Add(N(0), merger, map[string]string{}, "merger", append(consts,
		distsys.EnsureArchetypeRefParam("crdt", M(st, "crdt", 0, PlainR, PlainW)),
		distsys.EnsureArchetypeRefParam("c", M(st, "c", 0, PlainR, PlainW)))...)
	s.Weight = func(p *Proc, _ int) int {
		if p.Group == "merger" {
			return 2
		}
		return 1
	}
	var el []string
	for _, e := range es {
		el = append(el, e.String())
	}
	sim := &Sim{Name: "shopcart", Sched: s, SpecFiles: []string{repoPath("systems/shopcart/shopcart.tla")}, Module: "shopcart",
		Constants:  []string{fmt.Sprintf("NumNodes = %d", numNodes), fmt.Sprintf("BenchNumRounds = %d", rounds), "ElemSet = {" + strings.Join(el, ", ") + "}"},
		Invariants: []string{"QueryOK", "StrongConvergence"},
		Params:     map[string]any{"archetype": "ANodeBench", "NumNodes": numNodes, "BenchNumRounds": rounds},
		MaxSteps:   60 + 20*numNodes*numNodes*rounds}
	iface := nodes[0].Ctx.IFace()
	sim.Monitor = func(step Step) []Violation {
		vs := shopcartCommon(iface, st, "c", numNodes, step)
		crdt := st.Get("crdt")
		c := st.Get("c")
		// add-only workload: a replica reads exactly the elements whose add it knows of
		for i := 1; i <= numNodes; i++ {
			q := shopcart.Query(iface, crdt.ApplyFunction(N(i)))
			var known []tla.Value
			for _, op := range Elems(c.ApplyFunction(N(i))) {
				known = append(known, TupleElems(op)[1])
			}
			if !q.Equal(Set(known...)) {
				vs = append(vs, Violation{"C16:shopcart:read-differs-from-known-adds", fmt.Sprintf("node %d reads %s but knows the adds %s (step %d %s)", i, q.String(), c.ApplyFunction(N(i)).String(), step.N, step.Label)})
			}
		}
		if step.Label == "ANodeBench.waitAdd" {
			i := step.Proc.Self
			r := int(step.Proc.Local("r").AsNumber()) - 1 // round just finished
			q := shopcart.Query(iface, crdt.ApplyFunction(i))
			for n := 1; n <= numNodes; n++ {
				if !tla.ModuleInSymbol(N(r*numNodes+n-1), q).AsBool() {
					vs = append(vs, Violation{"C16:shopcart:left-wait-early", fmt.Sprintf("node %s finished round %d but does not read element %d of node %d: %s", i.String(), r, r*numNodes+n-1, n, q.String())})
				}
			}
		}
		return vs
	}
	sim.Final = func(RunResult) []Violation {
		var vs []Violation
		allDone := true
		for _, p := range nodes {
			if !procTerminated(p) {
				allDone = false
			}
		}
		if allDone {
			for i := 1; i <= numNodes; i++ {
				if q := shopcart.Query(iface, st.Get("crdt").ApplyFunction(N(i))); !q.Equal(elemSet) {
					vs = append(vs, Violation{"C16:shopcart:final-value", fmt.Sprintf("all nodes terminated, node %d reads %s, expected %s", i, q.String(), elemSet.String())})
				}
			}
		}
		return vs
	}
	return sim
}

// shopcartCommon: QueryOK and StrongConvergence (equal knowledge => equal state => equal read).
func shopcartCommon(iface distsys.ArchetypeInterface, st *Store, knowVar string, numNodes int, step Step) []Violation {
	var vs []Violation
	crdt := st.Get("crdt")
	kn := st.Get(knowVar)
	for i := 1; i <= numNodes; i++ {
		for j := i + 1; j <= numNodes; j++ {
			ci, cj := crdt.ApplyFunction(N(i)), crdt.ApplyFunction(N(j))
			qi, qj := shopcart.Query(iface, ci), shopcart.Query(iface, cj)
			if ci.Equal(cj) && !qi.Equal(qj) {
				vs = append(vs, Violation{"C16:shopcart:QueryOK", fmt.Sprintf("nodes %d and %d hold the same state %s but read %s and %s", i, j, ci.String(), qi.String(), qj.String())})
			}
			if kn.ApplyFunction(N(i)).Equal(kn.ApplyFunction(N(j))) {
				// structural key: does the shared history contain a remove of an element on which the replicas differ?
				// (knowledge entries: <<AddCmd, elem>> in c, <<id, cmd, elem, node>> in __know)
				shape := func(differs func(e tla.Value) bool) string {
					for _, op := range Elems(kn.ApplyFunction(N(i))) {
						t := TupleElems(op)
						if len(t) == 4 && t[1].Equal(N(2)) && differs(t[2]) {
							return "history-with-remove"
						}
					}
					return "add-only-history"
				}
				if !qi.Equal(qj) {
					sh := shape(func(e tla.Value) bool {
						return tla.ModuleInSymbol(e, qi).AsBool() != tla.ModuleInSymbol(e, qj).AsBool()
					})
					vs = append(vs, Violation{"C16:shopcart:equal-knowledge-unequal-read:" + sh, fmt.Sprintf("nodes %d and %d know %s but read %s and %s (states %s / %s) (step %d %s)", i, j, kn.ApplyFunction(N(i)).String(), qi.String(), qj.String(), ci.String(), cj.String(), step.N, step.Label)})
				} else if !ci.Equal(cj) {
					sh := shape(func(e tla.Value) bool {
						return !Fld(ci, "addMap").ApplyFunction(e).Equal(Fld(cj, "addMap").ApplyFunction(e)) || !Fld(ci, "remMap").ApplyFunction(e).Equal(Fld(cj, "remMap").ApplyFunction(e))
					})
					vs = append(vs, Violation{"C16:shopcart:equal-knowledge-unequal-state:" + sh, fmt.Sprintf("nodes %d and %d know %s and read the same %s but hold %s and %s (step %d %s)", i, j, kn.ApplyFunction(N(i)).String(), qi.String(), ci.String(), cj.String(), step.N, step.Label)})
				}
			}
		}
	}
	return vs
}

// ShopcartNode builds the spec's alternative instantiation (ANode over a shared input queue) with the given
// commands (cmd 1=add 2=remove, elem 1..3) and unique-id knowledge tracking; not for TLC.
func ShopcartNode(seed int64, numNodes int, cmds [][2]int) *Sim {
	elemSet := Set(S("1"), S("2"), S("3"))
	var in []tla.Value
	for _, c := range cmds {
		in = append(in, Rec("cmd", N(c[0]), "elem", S(fmt.Sprint(c[1]))))
	}
	st := shopcartStore(numNodes, elemSet, Tup(in...))
	nodeSet := tla.ModuleDotDotSymbol(N(1), N(numNodes))
	st.Init("__know", Fn(nodeSet, K(Set())))
	st.Init("__seq", N(0))
	s := NewSched(seed, st)
	consts := []distsys.MPCalContextConfigFn{
		distsys.DefineConstantValue("NumNodes", N(numNodes)),
		distsys.DefineConstantValue("BenchNumRounds", N(0)),
		distsys.DefineConstantValue("ElemSet", elemSet),
	}
	knowRes := M(st, "__know", 1, PlainR, histWrite)
	seqRes := M(st, "__seq", 0, PlainR, PlainW)
	type opRec struct {
		node int
		val  tla.Value
	}
	var lastOp *opRec // operation applied by the attempt in flight (valid if it commits)
	onOp := func(iface distsys.ArchetypeInterface, self, val tla.Value) error {
		k := int(st.Cur["__seq"].AsNumber()) + 1
		if err := seqRes.WriteValue(iface, N(k)); err != nil {
			return err
		}
		kr, _ := knowRes.Index(iface, self)
		lastOp = &opRec{int(self.AsNumber()), val}
		return kr.WriteValue(iface, Set(Tup(N(k), Fld(val, "cmd"), Fld(val, "elem"), self)))
	}
	var nodes []*Proc
	for i := 1; i <= numNodes; i++ {
		p := s.Add(N(i), shopcart.ANode, map[string]string{}, "node", append(consts,
			distsys.EnsureArchetypeRefParam("crdt", M(st, "crdt", 1, aworsetRead, aworsetWrite(onOp))),
			distsys.EnsureArchetypeRefParam("in", M(st, "in", 0, inputQueueRead, inputQueueWrite)),
			distsys.EnsureArchetypeRefParam("out", M(st, "out", 0, PlainR, PlainW)))...)
		nodes = append(nodes, p)
	}
	merger := mergerArchetype("UpdateCRDT", "crdt", []string{"__know"}, shopcart.NodeSet, shopcartMerge)
	s.Add(N(0), merger, map[string]string{}, "merger", append(consts,
		distsys.EnsureArchetypeRefParam("crdt", M(st, "crdt", 0, PlainR, PlainW)),
		distsys.EnsureArchetypeRefParam("__know", M(st, "__know", 0, PlainR, PlainW)))...)
	sim := &Sim{Name: "shopcart", Sched: s, SpecFiles: []string{repoPath("systems/shopcart/shopcart.tla")}, Module: "shopcart",
		Constants:  []string{fmt.Sprintf("NumNodes = %d", numNodes), "BenchNumRounds = 0", `ElemSet = {"1", "2", "3"}`},
		Invariants: []string{"QueryOK"},
		Params:     map[string]any{"archetype": "ANode", "NumNodes": numNodes, "commands": cmds},
		MaxSteps:   60 + 2*len(cmds) + 12*numNodes*numNodes*len(cmds)}
	iface := nodes[0].Ctx.IFace()
	prevIn := st.Get("in")
	sim.Monitor = func(step Step) []Violation {
		vs := shopcartCommon(iface, st, "__know", numNodes, step)
		crdt := st.Get("crdt")
		defer func() { prevIn = st.Get("in") }()
		switch step.Label {
		case "ANode.nodeLoop":
			consumed := tla.ModuleHead(prevIn) // InputQueue: the step took the head of the queue as it was before
			if !st.Get("in").Equal(tla.ModuleTail(prevIn)) {
				vs = append(vs, Violation{"C16:shopcart:input-queue-not-popped", fmt.Sprintf("node %s consumed a command but in went %s -> %s (step %d)", step.Proc.Self.String(), prevIn.String(), st.Get("in").String(), step.N)})
			}
			if lastOp == nil || lastOp.node != int(step.Proc.Self.AsNumber()) {
				vs = append(vs, Violation{"C16:shopcart:command-not-applied", fmt.Sprintf("node %s consumed command %s at step %d without writing it to its replica", step.Proc.Self.String(), consumed.String(), step.N)})
				break
			}
			if !lastOp.val.Equal(consumed) {
				vs = append(vs, Violation{"C16:shopcart:command-altered", fmt.Sprintf("node %s consumed %s but applied %s to its replica (step %d)", step.Proc.Self.String(), consumed.String(), lastOp.val.String(), step.N)})
			}
			// the node that applied the operation observes it at once (add wins locally, remove removes locally)
			q := shopcart.Query(iface, crdt.ApplyFunction(step.Proc.Self))
			elem := Fld(consumed, "elem")
			isAdd := Fld(consumed, "cmd").Equal(N(1))
			if isAdd != tla.ModuleInSymbol(elem, q).AsBool() {
				vs = append(vs, Violation{"C16:shopcart:own-operation-not-observed", fmt.Sprintf("node %s consumed %s and then reads %s (step %d)", step.Proc.Self.String(), consumed.String(), q.String(), step.N)})
			}
			lastOp = nil
		case "ANode.rcvResp":
			if want := shopcart.Query(iface, crdt.ApplyFunction(step.Proc.Self)); !st.Get("out").Equal(want) {
				vs = append(vs, Violation{"C16:shopcart:response-not-the-read-value", fmt.Sprintf("node %s answered %s, its replica reads %s (step %d)", step.Proc.Self.String(), st.Get("out").String(), want.String(), step.N)})
			}
		}
		return vs
	}
	return sim
}

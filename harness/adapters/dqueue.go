package adapters

import (
	"fmt"
	"math/rand"

	. "verifh/simsched"

	"github.com/DistCompiler/pgo/distsys"
	"github.com/DistCompiler/pgo/distsys/tla"
	"github.com/DistCompiler/pgo/systems/dqueue"
)

// dqueue: one producer (PRODUCER = 0, the spec's network is indexed 0..NUM_NODES-1) and NUM_CONSUMERS
// consumers; network[_] via TCPChannel (FIFO queue per receiver, bounded by BUFFER_SIZE), stream via
// CyclicReads. exact=false: the stream yields 1,2,3,... instead of cycling modulo BUFFER_SIZE, so every item
// has a unique id.

func init() {
	Register(Factory{Name: "dqueue", Tags: []string{"c02", "c16"}, New: func(seed int64, exact bool, rng *rand.Rand) *Sim {
		return Dqueue(seed, DqueueOpts{NumConsumers: 1 + rng.Intn(4), BufferSize: 1 + rng.Intn(4), Exact: exact})
	}})
}

// DqueueOpts is the configuration of one dqueue sim.
type DqueueOpts struct {
	NumConsumers, BufferSize int
	Exact                    bool
}

// Dqueue builds the distributed queue.
func Dqueue(seed int64, o DqueueOpts) *Sim {
	const producer = 0
	nc, bs := o.NumConsumers, o.BufferSize
	obs := map[string]int{} // what the monitors saw (evidence)
	st := NewStore()
	nodes := tla.ModuleDotDotSymbol(N(0), N(nc))
	st.Init("network", Fn(nodes, K(Tup())))
	st.Init("processor", N(0))
	st.Init("stream", N(0))
	s := NewSched(seed, st)
	consts := []distsys.MPCalContextConfigFn{
		distsys.DefineConstantValue("PRODUCER", N(producer)),
		distsys.DefineConstantValue("NUM_CONSUMERS", N(nc)),
		distsys.DefineConstantValue("BUFFER_SIZE", N(bs)),
	}
	net := func() distsys.MPCalContextConfigFn {
		return distsys.EnsureArchetypeRefParam("net", M(st, "network", 1, mpTCPRead, mpTCPWrite(bs, obs)))
	}
	// CyclicReads: read { $variable := ($variable + 1) % BUFFER_SIZE; yield $variable; }  write { yield $variable }
	streamRead := func(_ distsys.ArchetypeInterface, _ []tla.Value, c tla.Value) (tla.Value, tla.Value, error) {
		n := int(c.AsNumber()) + 1
		if o.Exact {
			n %= bs
		}
		return N(n), N(n), nil
	}
	streamWrite := func(_ distsys.ArchetypeInterface, _ []tla.Value, c, _ tla.Value) (tla.Value, error) { return c, nil }
	prod := s.Add(N(producer), dqueue.AProducer, map[string]string{"requester": "requester"}, "producer",
		append(consts, net(), distsys.EnsureArchetypeRefParam("s", M(st, "stream", 0, streamRead, streamWrite)))...)
	cons := map[int]*Proc{}
	for c := 1; c <= nc; c++ {
		cons[c] = s.Add(N(c), dqueue.AConsumer, map[string]string{}, fmt.Sprintf("consumer%d", c),
			append(consts, net(), distsys.EnsureArchetypeRefParam("proc", M(st, "processor", 0, PlainR, PlainW)))...)
	}
	sim := &Sim{Name: "dqueue", Sched: s, SpecFiles: []string{repoPath("systems/dqueue/dqueue.tla")}, Module: "dqueue",
		Constants: []string{fmt.Sprintf("BUFFER_SIZE = %d", bs), fmt.Sprintf("NUM_CONSUMERS = %d", nc), "PRODUCER = 0"},
		// dqueue.tla states no invariant; the buffer bound is expressed for TLC in ExtraDefs-free form below
		Invariants: nil,
		Params:     map[string]any{"NUM_CONSUMERS": nc, "BUFFER_SIZE": bs, "exact": o.Exact, "observed": obs}, MaxSteps: 400}

	// ---------------- monitors ----------------
	prev := map[int][]tla.Value{} // network as of the previous committed state
	for i := 0; i <= nc; i++ {
		prev[i] = nil
	}
	reqSent := make([]int, nc+1)   // requests consumer c has put on the wire
	routed := make([]int, nc+1)    // items the producer has appended to network[c]
	consumed := make([]int, nc+1)  // items consumer c has taken
	lastItem := make([]int, nc+1)  // id of the last item consumer c took (unique ids only)
	var reqOrder []int             // requesters in the order the producer dequeued their requests
	produced := 0                  // items handed out by the producer so far
	owner := map[int]int{}         // item id -> consumer whose mailbox it was appended to (unique ids only)
	taken := map[int]bool{}        // item id -> consumed (unique ids only)
	queue := func(i int) []tla.Value { return mpSeq(st.Get("network").ApplyFunction(N(i))) }
	sim.Monitor = func(step Step) []Violation {
		var vs []Violation
		bad := func(key, f string, a ...any) {
			vs = append(vs, Violation{"C16:dqueue:" + key, fmt.Sprintf("[NUM_CONSUMERS=%d BUFFER_SIZE=%d exact=%v step %d %s(%s)] ", nc, bs, o.Exact, step.N, step.Label, step.Proc.Self.String()) + fmt.Sprintf(f, a...)})
		}
		self := int(step.Proc.Self.AsNumber())
		// --- what changed in the network in this step ---
		for i := 0; i <= nc; i++ {
			cur, old := queue(i), prev[i]
			switch {
			case len(cur) == len(old) && mpSameSeq(cur, old):
			case len(cur) == len(old)+1 && mpSameSeq(cur[:len(old)], old): // one message appended
				m := cur[len(cur)-1]
				if i == producer { // a request
					if self < 1 || self > nc || !m.Equal(N(self)) {
						bad("foreign-request", "request %s appended to the producer's mailbox by process %d", m.String(), self)
						break
					}
					reqSent[self]++
					if reqSent[self]-consumed[self] > 1 {
						bad("second-request-before-answer", "consumer %d has %d requests outstanding", self, reqSent[self]-consumed[self])
					}
				} else { // an item for consumer i
					if self != producer {
						bad("item-not-from-producer", "item %s appended to network[%d] by process %d", m.String(), i, self)
						break
					}
					produced++
					routed[i]++
					if routed[i] > reqSent[i] {
						bad("item-without-request", "item %s sent to consumer %d, which has sent %d requests and was already sent %d items", m.String(), i, reqSent[i], routed[i]-1)
					}
					if produced > len(reqOrder) {
						bad("item-without-dequeued-request", "item number %d sent to consumer %d, but the producer has dequeued only %d requests (%v)", produced, i, len(reqOrder), reqOrder)
					} else if reqOrder[produced-1] != i {
						bad("item-to-wrong-consumer", "item number %d went to consumer %d; the request dequeued as number %d came from consumer %d (dequeue order %v)", produced, i, produced, reqOrder[produced-1], reqOrder)
					}
					if !o.Exact {
						id := int(m.AsNumber())
						if id != produced {
							bad("production-order", "item number %d handed out carries id %d", produced, id)
						}
						if _, dup := owner[id]; dup {
							bad("item-sent-twice", "item %d appended to network[%d] but was already sent to consumer %d", id, i, owner[id])
						}
						owner[id] = i
					}
				}
			case len(cur)+1 == len(old) && mpSameSeq(cur, old[1:]): // head removed
				m := old[0]
				if self != i {
					bad("message-taken-by-other-process", "head %s of network[%d] removed by process %d", m.String(), i, self)
					break
				}
				if i == producer {
					r := prod.Local("requester")
					if !r.Equal(m) {
						bad("requester-not-head", "producer dequeued %s but requester = %s", m.String(), r.String())
					}
					if !m.IsNumber() || m.AsNumber() < 1 || int(m.AsNumber()) > nc {
						bad("request-from-unknown", "producer dequeued request %s", m.String())
						break
					}
					reqOrder = append(reqOrder, int(m.AsNumber()))
				} else {
					consumed[i]++
					obs["items_consumed"]++
					if got := st.Get("processor"); !got.Equal(m) {
						bad("processed-not-delivered", "consumer %d took %s from its mailbox but processed %s", i, m.String(), got.String())
					}
					if consumed[i] > reqSent[i] {
						bad("consumed-without-request", "consumer %d consumed %d items having sent %d requests", i, consumed[i], reqSent[i])
					}
					if !o.Exact {
						id := int(m.AsNumber())
						if taken[id] {
							bad("item-consumed-twice", "item %d consumed again by consumer %d", id, i)
						}
						taken[id] = true
						if w, ok := owner[id]; !ok || w != i {
							bad("item-not-addressed-to-consumer", "consumer %d consumed item %d which was sent to %v", i, id, owner[id])
						}
						if id <= lastItem[i] {
							bad("consumer-stream-out-of-order", "consumer %d consumed item %d after item %d", i, id, lastItem[i])
						}
						lastItem[i] = id
					}
				}
			default:
				bad("unexpected-network-change", "network[%d] went from %v to %v", i, old, cur)
			}
			prev[i] = cur
			if len(cur) == bs {
				obs["states_with_a_full_buffer"]++
			}
			if len(cur) > bs {
				bad("buffer-overflow", "Len(network[%d]) = %d > BUFFER_SIZE = %d", i, len(cur), bs)
			}
		}
		// --- conservation ---
		inFlight, cons := 0, 0
		for c := 1; c <= nc; c++ {
			inFlight += len(prev[c])
			cons += consumed[c]
			// per consumer: requests sent = items consumed + items in its mailbox + request not yet answered (0 or 1)
			if open := reqSent[c] - consumed[c] - len(prev[c]); open < 0 || open > 1 {
				bad("consumer-accounting", "consumer %d: %d requests sent, %d consumed, %d in its mailbox", c, reqSent[c], consumed[c], len(prev[c]))
			}
		}
		if produced != cons+inFlight {
			bad("conservation", "produced %d != consumed %d + in flight %d", produced, cons, inFlight)
		}
		if !o.Exact {
			if sv := int(st.Get("stream").AsNumber()); sv != produced {
				bad("stream-accounting", "stream handed out %d ids but %d items were appended to mailboxes", sv, produced)
			}
		}
		totalReq := 0
		for c := 1; c <= nc; c++ {
			totalReq += reqSent[c]
		}
		if held := len(reqOrder) - produced; totalReq != len(prev[producer])+len(reqOrder) || held < 0 || held > 1 {
			bad("request-accounting", "%d requests sent, %d waiting at the producer, %d dequeued, %d answered", totalReq, len(prev[producer]), len(reqOrder), produced)
		}
		return vs
	}
	// An idle end (no process can take a step) would be a deadlock; the statement of C16 is about safety only, so
	// it is not reported here: Outcome.Result.EndedIdle is counted by the check as an observation.
	_ = cons
	return sim
}

func mpSameSeq(a, b []tla.Value) bool {
	if len(a) != len(b) {
		return false
	}
	for i := range a {
		if !a[i].Equal(b[i]) {
			return false
		}
	}
	return true
}

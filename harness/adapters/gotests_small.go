package adapters

// Adapters for the small compiler test pairs: hello, bug_119, bug2_124, IndexingLocals, NonDetExploration.
// (gogen/EmptyBlock has neither archetypes, processes nor operators: nothing can step; see GotestsPairsWithoutSteps.)
// All tables below were derived by reading pcal's translation of the corresponding .tla.expectpcal.

import (
	"fmt"
	"math/rand"
	"regexp"

	. "verifh/simsched"

	"github.com/DistCompiler/pgo/distsys"
	"github.com/DistCompiler/pgo/distsys/tla"

	indexinglocals "github.com/DistCompiler/pgo/test/files/general/IndexingLocals.tla.gotests"
	nondet "github.com/DistCompiler/pgo/test/files/general/NonDetExploration.tla.gotests"
	bug2 "github.com/DistCompiler/pgo/test/files/general/bug2_124.tla.gotests"
	bug119 "github.com/DistCompiler/pgo/test/files/general/bug_119.tla.gotests"
	hello "github.com/DistCompiler/pgo/test/files/general/hello.tla.gotests"
)

// GotestsPairsWithoutSteps lists pairs for which there is nothing to run, with the reason.
var GotestsPairsWithoutSteps = map[string]string{
	"gogen/EmptyBlock": "the MPCal block is empty: the generated Go has an empty jump table and procedure table, the module has no algorithm, no process and no operator; no step exists on either side",
}

func init() {
	const g = "pgo/test/files/general/"
	gtArtefacts["general/hello"] = gtArtefactDef{Rel: g + "hello.tla.expectpcal",
		Wrap: "VerifMkHello0(a, b) == a \\o b\nVerifMkHello1(a, b) == <<b, a>>\nVerifMkHello2(a, b) == [left |-> a, right |-> {b}]"}
	gtArtefacts["general/bug_119"] = gtArtefactDef{Rel: g + "bug_119.tla.expectpcal", Repairs: gtBug119Repairs}
	gtArtefacts["general/bug2_124"] = gtArtefactDef{Rel: g + "bug2_124.tla.expectpcal"}
	gtArtefacts["general/IndexingLocals"] = gtArtefactDef{Rel: g + "IndexingLocals.tla.expectpcal"}
	gtArtefacts["general/NonDetExploration"] = gtArtefactDef{Rel: g + "NonDetExploration.tla.expectpcal"}
	gtArtefacts["general/ProcedureSpaghetti"] = gtArtefactDef{Rel: g + "ProcedureSpaghetti.tla.expectpcal", Repairs: gtProcSpagRepairs}
	gtArtefacts["general/PBFail4_bug125"] = gtArtefactDef{Rel: g + "PBFail4_bug125.tla.expectpcal"}
	gtArtefacts["general/ExprTests"] = gtArtefactDef{Rel: g + "ExprTests.tla.expectpcal", Repairs: gtExprTestsRepairs}
	gtArtefacts["gogen/bug_167"] = gtArtefactDef{Rel: "pgo/test/files/gogen/bug_167.tla"}
	gtArtefacts["gogen/EmptyBlock"] = gtArtefactDef{Rel: "pgo/test/files/gogen/EmptyBlock.tla"}
	Register(Factory{Name: "gotests/hello", Tags: []string{"c02"}, New: func(seed int64, exact bool, rng *rand.Rand) *Sim { return gtHello(seed, int(seed%3)) }})
	Register(Factory{Name: "gotests/bug_119", Tags: []string{"c02"}, New: func(seed int64, exact bool, rng *rand.Rand) *Sim { return gtBug119(seed) }})
	Register(Factory{Name: "gotests/bug2_124", Tags: []string{"c02"}, New: func(seed int64, exact bool, rng *rand.Rand) *Sim {
		return gtBug2(seed, 1+rng.Intn(3), 1+rng.Intn(3), seed%2 == 1, rng)
	}})
	Register(Factory{Name: "gotests/IndexingLocals", Tags: []string{"c02"}, New: func(seed int64, exact bool, rng *rand.Rand) *Sim { return gtIndexingLocals(seed) }})
	Register(Factory{Name: "gotests/NonDetExploration", Tags: []string{"c02"}, New: func(seed int64, exact bool, rng *rand.Rand) *Sim {
		return gtNonDet(seed, seed%3 == 0)
	}})
}

// ---------------------------------------------------------------------------------------------------------
// hello: fair process (Hello = 1) == instance AHello(ref out); CONSTANT MK_HELLO(_,_)
// ---------------------------------------------------------------------------------------------------------

func gtHello(seed int64, variant int) *Sim {
	// the higher-order constant is environment-provided: three instantiations, bound identically on both sides
	defs := []struct {
		tla string
		f   func(a, b tla.Value) tla.Value
	}{
		{`VerifMkHello(a, b) == a \o b`, func(a, b tla.Value) tla.Value { return tla.MakeString(a.AsString() + b.AsString()) }},
		{`VerifMkHello(a, b) == <<b, a>>`, func(a, b tla.Value) tla.Value { return Tup(b, a) }},
		{`VerifMkHello(a, b) == [left |-> a, right |-> {b}]`, func(a, b tla.Value) tla.Value { return Rec("left", a, "right", Set(b)) }},
	}
	d := defs[variant%len(defs)]
	sp := GotestsArtefact("general/hello")
	if sp.Err != nil {
		return gtSpecFail("gotests/hello", sp)
	}
	st := NewStore()
	st.Init("out", gtDefault)
	s := NewSched(seed, st)
	p := s.Add(N(1), hello.AHello, nil, "Hello",
		distsys.DefineConstantOperator("MK_HELLO", d.f),
		distsys.EnsureArchetypeRefParam("out", M(st, "out", 0, PlainR, PlainW)))
	x := &GotestsExtra{Spec: sp, Tables: map[string]any{"processes": map[string]string{"Hello=1": "AHello(ref out)"}, "locals": map[string]string{}}}
	x.wrap(p, nil, nil, nil)
	x.pcAndStack(nil, false)
	x.global(st, "out")
	sim := &Sim{Name: "gotests/hello", Sched: s, SpecFiles: sp.Files, Module: sp.WrapModule,
		Constants: []string{fmt.Sprintf("MK_HELLO <- VerifMkHello%d", variant%len(defs))},
		Params:    map[string]any{"MK_HELLO": d.tla}, MaxSteps: 10}
	return gtRegister(sim, x)
}

// ---------------------------------------------------------------------------------------------------------
// bug_119 (module "test"): process (Server = "1") == instance Counter(ref out); procedure inc(self_, ref counter)
// specialised to inc0(self_) with counter := value.
// ---------------------------------------------------------------------------------------------------------

var gtBug119Repairs = []gtRepair{{
	Stage: "pcal",
	Why:   `artefact as emitted is not loadable: in the single process (Server = "1") the call "call inc0(self)" leaves "self" unbound in pcal's translation (SANY: Unknown operator: self); validated with "self" replaced by the process identifier "1" in that call`,
	Re:    regexp.MustCompile(`call inc0\(self\)`),
	Repl:  `call inc0("1")`,
}}

func gtBug119(seed int64) *Sim {
	sp := GotestsArtefact("general/bug_119")
	if sp.Err != nil {
		return gtSpecFail("gotests/bug_119", sp)
	}
	st := NewStore()
	st.Init("out", gtDefault)
	s := NewSched(seed, st)
	self := S("1")
	p := s.Add(self, bug119.Counter, nil, "Server",
		distsys.EnsureArchetypeRefParam("out", M(st, "out", 0, PlainR, PlainW)))
	inc0 := &gtProcSpec{TLA: "inc0", Go: "inc", Vars: [][2]string{{"self_", "self_"}}} // ref parameter counter is specialised away
	x := &GotestsExtra{Spec: sp, Tables: map[string]any{
		"processes":  map[string]string{`Server="1"`: "Counter(ref out)"},
		"locals":     map[string]string{"Counter.value": "value (scalar: single process)"},
		"procedures": map[string]any{"inc0": map[string]any{"go": "inc", "vars": map[string]string{"inc.self_": "self_"}, "ref_params_specialised_away": []string{"inc.counter := Counter.value"}}},
	}}
	x.wrap(p, nil, []*gtProcSpec{inc0}, gtCallees(sp.Text))
	x.pcAndStack(nil, true)
	x.global(st, "out")
	x.procVarFns([]string{"self_"}, []tla.Value{self})
	x.scalar("value", gtGet(p, "Counter.value"))
	sim := &Sim{Name: "gotests/bug_119", Sched: s, SpecFiles: sp.Files, Module: sp.WrapModule, Params: map[string]any{}, MaxSteps: 20}
	return gtRegister(sim, x)
}

// ---------------------------------------------------------------------------------------------------------
// bug2_124 (module "bug2"): fair process (EchoServer \in 1..NUM_NODES) == instance AEchoServer(ref network[_])
// mapping network[_] via TCPChannel.
// ---------------------------------------------------------------------------------------------------------

func gtTCPChannelRead(_ distsys.ArchetypeInterface, _ []tla.Value, c tla.Value) (tla.Value, tla.Value, error) {
	if c.AsTuple().Len() == 0 { // await Len($variable) > 0
		return c, c, ErrAbort
	}
	return tla.ModuleTail(c), tla.ModuleHead(c), nil // $variable := Tail($variable); yield Head
}

func gtTCPChannelWrite(bufferSize int) WR {
	return func(_ distsys.ArchetypeInterface, _ []tla.Value, c, v tla.Value) (tla.Value, error) {
		if c.AsTuple().Len() >= bufferSize { // await Len($variable) < BUFFER_SIZE
			return c, ErrAbort
		}
		return tla.ModuleAppend(c, v), nil
	}
}

// gtBug2: seeded=false starts in the artefact's Init (all channels empty: only serverLoop is ever enabled);
// seeded=true starts from a state that is NOT reachable in the artefact (channels pre-filled with well-formed
// messages, as an environment would) so that rcvMsg/sndMsg are exercised; such traces are validated with Init
// relaxed and are reported separately by the driver.
func gtBug2(seed int64, numNodes, bufferSize int, seeded bool, rng *rand.Rand) *Sim {
	sp := GotestsArtefact("general/bug2_124")
	if sp.Err != nil {
		return gtSpecFail("gotests/bug2_124", sp)
	}
	st := NewStore()
	nodes := tla.ModuleDotDotSymbol(N(1), N(numNodes))
	typs := tla.ModuleDotDotSymbol(N(1), N(4))
	net := tla.MakeFunction([]tla.Value{nodes, typs}, func(a []tla.Value) tla.Value {
		if !seeded {
			return Tup()
		}
		var ms []tla.Value
		// rcvMsg reads network[self, 1]; sndMsg appends to network[msg.from, msg.typ] if shorter than BUFFER_SIZE
		k := rng.Intn(bufferSize)
		if a[1].Equal(N(1)) {
			k = 1 + rng.Intn(bufferSize)
		}
		for ; k > 0; k-- {
			ms = append(ms, Rec("from", N(1+rng.Intn(numNodes)), "to", a[0], "body", N(rng.Intn(100)), "typ", N(1+rng.Intn(4))))
		}
		return Tup(ms...)
	})
	st.Init("network", net)
	s := NewSched(seed, st)
	x := &GotestsExtra{Spec: sp, Relaxed: seeded, Tables: map[string]any{
		"processes": map[string]string{"EchoServer \\in 1..NUM_NODES": "AEchoServer(ref network[_] via TCPChannel)"},
		"locals":    map[string]string{"AEchoServer.msg": "msg[self]"},
	}}
	if seeded {
		x.InitVars = []string{"network"}
	}
	var msgs []gtEntry
	for i := 1; i <= numNodes; i++ {
		p := s.Add(N(i), bug2.AEchoServer, nil, "EchoServer",
			distsys.DefineConstantValue("NUM_NODES", N(numNodes)), distsys.DefineConstantValue("BUFFER_SIZE", N(bufferSize)),
			distsys.EnsureArchetypeRefParam("net", M(st, "network", 1, gtTCPChannelRead, gtTCPChannelWrite(bufferSize))))
		x.wrap(p, nil, nil, nil)
		msgs = append(msgs, gtEntry{Self: N(i), Get: gtGet(p, "AEchoServer.msg")})
	}
	x.pcAndStack(nil, false)
	x.global(st, "network")
	x.fn("msg", msgs)
	sim := &Sim{Name: "gotests/bug2_124", Sched: s, SpecFiles: sp.Files, Module: sp.WrapModule,
		Constants: []string{fmt.Sprintf("NUM_NODES = %d", numNodes), fmt.Sprintf("BUFFER_SIZE = %d", bufferSize)},
		Params:    map[string]any{"NUM_NODES": numNodes, "BUFFER_SIZE": bufferSize, "seeded_unreachable_start": seeded}, MaxSteps: 60}
	return gtRegister(sim, x)
}

// ---------------------------------------------------------------------------------------------------------
// IndexingLocals: fair process (node \in NodeSet) == instance ANode(); NodeSet == 1..1
// ---------------------------------------------------------------------------------------------------------

func gtIndexingLocals(seed int64) *Sim {
	sp := GotestsArtefact("general/IndexingLocals")
	if sp.Err != nil {
		return gtSpecFail("gotests/IndexingLocals", sp)
	}
	st := NewStore()
	s := NewSched(seed, st)
	x := &GotestsExtra{Spec: sp, Tables: map[string]any{
		"processes": map[string]string{"node \\in NodeSet (=1..1)": "ANode()"},
		"locals":    map[string]string{"ANode.log": "log[self]", "ANode.p": "p[self]"},
	}}
	var logs, ps []gtEntry
	for _, self := range []tla.Value{N(1)} {
		p := s.Add(self, indexinglocals.ANode, nil, "node")
		x.wrap(p, nil, nil, nil)
		logs = append(logs, gtEntry{Self: self, Get: gtGet(p, "ANode.log")})
		ps = append(ps, gtEntry{Self: self, Get: gtGet(p, "ANode.p")})
	}
	x.pcAndStack(nil, false)
	x.fn("log", logs)
	x.fn("p", ps)
	sim := &Sim{Name: "gotests/IndexingLocals", Sched: s, SpecFiles: sp.Files, Module: sp.WrapModule, Params: map[string]any{}, MaxSteps: 20}
	return gtRegister(sim, x)
}

// ---------------------------------------------------------------------------------------------------------
// NonDetExploration: process (Coverage = 1) ACoverage; (Coincidence = 2) ACoincidence; (Complex = 3) AComplex
// ---------------------------------------------------------------------------------------------------------

// gtNonDet: starveMark makes the oracle always pick the first element in AComplex.lbl1, so that the assertion of
// AComplex.loop fails when i reaches 20 (assertion outcome must be the same on both sides).
func gtNonDet(seed int64, starveMark bool) *Sim {
	sp := GotestsArtefact("general/NonDetExploration")
	if sp.Err != nil {
		return gtSpecFail("gotests/NonDetExploration", sp)
	}
	st := NewStore()
	s := NewSched(seed, st)
	s.IdleRounds = 200 // a with/await label commits with probability 1/4 (1/16) per attempt: idle rounds are bad luck, not disablement
	if starveMark {
		s.Choice = func(p *Proc, id string, ceiling uint) uint {
			if id == "AComplex.lbl1.0" {
				return 0
			}
			return uint(s.Rng.Intn(int(ceiling)))
		}
	}
	x := &GotestsExtra{Spec: sp, Tables: map[string]any{
		"processes": map[string]string{"Coverage=1": "ACoverage()", "Coincidence=2": "ACoincidence()", "Complex=3": "AComplex()"},
		"locals":    map[string]string{"AComplex.i": "i (scalar)", "AComplex.mark": "mark (scalar)"},
	}}
	x.wrap(s.Add(N(1), nondet.ACoverage, nil, "Coverage"), nil, nil, nil)
	x.wrap(s.Add(N(2), nondet.ACoincidence, nil, "Coincidence"), nil, nil, nil)
	cx := s.Add(N(3), nondet.AComplex, nil, "Complex")
	x.wrap(cx, nil, nil, nil)
	x.pcAndStack(nil, false)
	x.scalar("i", gtGet(cx, "AComplex.i"))
	x.scalar("mark", gtGet(cx, "AComplex.mark"))
	sim := &Sim{Name: "gotests/NonDetExploration", Sched: s, SpecFiles: sp.Files, Module: sp.WrapModule,
		Params: map[string]any{"oracle_always_first_in_AComplex.lbl1": starveMark}, MaxSteps: 200}
	return gtRegister(sim, x)
}

package adapters

import (
	_ "embed"
	"fmt"
	"math/rand"
	"os"
	"path/filepath"
	"strings"
	"sync"

	. "verifh/simsched"

	"github.com/DistCompiler/pgo/distsys"
	"github.com/DistCompiler/pgo/distsys/resources"
	"github.com/DistCompiler/pgo/distsys/tla"
	"github.com/DistCompiler/pgo/systems/nestedcrdtimpl"
)

// NestedCRDTImpl: a CRDT implemented as an archetype (ACRDTResource) that is used as a *resource* by another
// archetype through resources.NewNested. The shipped translation models this as
//   CRDTResource \in RESOURCE_IDS == ACRDTResource(ref in[_] via SingleCellChannel, ref out[_] via SingleCellChannel,
//                                                  ref network[_] via TCPChannel, RESOURCE_IDS \ {self}, TRUE)
//   Node \in NODE_IDS — a plain PlusCal process that plays the nested-resource protocol against in/out
//                       (read/write requests, precommit, then abort or commit), i.e. what resources.NewNested does
//                       on behalf of ATestRig/ATestBench.
// ATestRig/ATestBench are NOT instantiated by the specification, and under simsched they cannot be serialised with
// the real resources.NewNested (one attempt of the rig spans several attempts of the nested archetype), so the
// adapter follows the specification: ACRDTResource is the repository's generated Go; Node is written here by hand as
// an archetype over plain resources, label by label after the PlusCal translation (TLC checks it with the rest).
// peers and timer are process-local variables introduced by the instantiation: Store functions over RESOURCE_IDS.
//
// The constant operators are the grow-only counter of the repository's own test (makeGCounterResource):
// ZERO_VALUE = empty function, COMBINE_FN = pointwise max, UPDATE_FN = add at self, VIEW_FN = sum; their TLA+
// counterparts live in adapters/tla/NestedCRDTImplMC.tla, which EXTENDS the shipped module unchanged.

//go:embed tla/NestedCRDTImplMC.tla
var nestedMCText string

var nestedMCOnce sync.Once
var nestedMCPath string

// nestedMCFile returns the path of the wrapper module: the checked-in copy if reachable, else a materialised one.
func nestedMCFile() string {
	nestedMCOnce.Do(func() {
		root := os.Getenv("VERIF_ROOT")
		if root == "" {
			root = "/verif"
		}
		p := filepath.Join(root, "harness", "adapters", "tla", "NestedCRDTImplMC.tla")
		if b, err := os.ReadFile(p); err == nil && string(b) == nestedMCText {
			nestedMCPath = p
			return
		}
		base := os.Getenv("VERIF_SCRATCH")
		if base == "" {
			base = os.TempDir()
		}
		d := filepath.Join(base, fmt.Sprintf("verif-adapters-%d", os.Getpid()))
		os.MkdirAll(d, 0o755)
		nestedMCPath = filepath.Join(d, "NestedCRDTImplMC.tla")
		os.WriteFile(nestedMCPath, []byte(nestedMCText), 0o644)
	})
	return nestedMCPath
}

var nestedEmptyCell = Rec("tpe", S("empty_cell"))

// SingleCellChannel mapping macro.
func singleCellRead(_ distsys.ArchetypeInterface, _ []tla.Value, c tla.Value) (tla.Value, tla.Value, error) {
	if c.Equal(nestedEmptyCell) {
		return c, c, ErrAbort
	}
	return nestedEmptyCell, c, nil
}

func singleCellWrite(_ distsys.ArchetypeInterface, _ []tla.Value, c, v tla.Value) (tla.Value, error) {
	if !c.Equal(nestedEmptyCell) {
		return c, ErrAbort
	}
	return v, nil
}

// TCPChannel mapping macro.
func tcpChannelRead(_ distsys.ArchetypeInterface, _ []tla.Value, c tla.Value) (tla.Value, tla.Value, error) {
	if c.AsTuple().Len() == 0 {
		return c, c, ErrAbort
	}
	return tla.ModuleTail(c), tla.ModuleHead(c), nil
}

func tcpChannelWrite(bufferSize int) WR {
	return func(_ distsys.ArchetypeInterface, _ []tla.Value, c, v tla.Value) (tla.Value, error) {
		if c.AsTuple().Len() >= bufferSize {
			return c, ErrAbort
		}
		return tla.ModuleAppend(c, v), nil
	}
}

// the grow-only counter of nestedcrdtimpl_test.go
func gcCombine(l, r tla.Value) tla.Value {
	m := l.AsFunction()
	it := r.AsFunction().Iterator()
	for !it.Done() {
		k, v, _ := it.Next()
		if o, ok := m.Get(k); !ok || v.AsNumber() > o.AsNumber() {
			m = m.Set(k, v)
		}
	}
	return tla.MakeRecordFromMap(m)
}

func gcUpdate(self, state, v tla.Value) tla.Value {
	orig := tla.ModuleZero
	if o, ok := state.AsFunction().Get(self); ok {
		orig = o
	}
	return tla.MakeRecordFromMap(state.AsFunction().Set(self, tla.ModulePlusSymbol(orig, v)))
}

func gcView(state tla.Value) tla.Value { return N(sumFn(state)) }

// nestedNodeArchetype is the spec's process Node (the client side of the nested-resource protocol).
func nestedNodeArchetype() distsys.MPCalArchetype {
	const A = "Node"
	loc := func(iface distsys.ArchetypeInterface, n string) distsys.ArchetypeResourceHandle {
		return iface.RequireArchetypeResource(A + "." + n)
	}
	rd := func(iface distsys.ArchetypeInterface, n string) (tla.Value, error) {
		return iface.Read(loc(iface, n), nil)
	}
	wr := func(iface distsys.ArchetypeInterface, n string, v tla.Value) error {
		return iface.Write(loc(iface, n), nil, v)
	}
	resOf := func(iface distsys.ArchetypeInterface) tla.Value {
		return nestedcrdtimpl.RESOURCE_OF(iface, iface.Self())
	}
	// <lbl>Req: in[RESOURCE_OF(self)] := [tpe |-> T (, value |-> 1)]; goto <lbl>Ack
	sendReq := func(label, tpeConst, next string, pre func(iface distsys.ArchetypeInterface) error, withValue bool) distsys.MPCalCriticalSection {
		return distsys.MPCalCriticalSection{Name: A + "." + label, Body: func(iface distsys.ArchetypeInterface) error {
			if pre != nil {
				if err := pre(iface); err != nil {
					return err
				}
			}
			in, err := iface.RequireArchetypeResourceRef(A + ".in")
			if err != nil {
				return err
			}
			msg := Rec("tpe", iface.GetConstant(tpeConst)())
			if withValue {
				msg = Rec("tpe", iface.GetConstant(tpeConst)(), "value", N(1))
			}
			if err = iface.Write(in, []tla.Value{resOf(iface)}, msg); err != nil {
				return err
			}
			return iface.Goto(A + "." + next)
		}}
	}
	// <lbl>Ack: await out[..] # EMPTY_CELL; assert out[..].tpe = T; out[..] := EMPTY_CELL; post; goto next
	recvAck := func(label, tpeConst string, post func(iface distsys.ArchetypeInterface) (string, error)) distsys.MPCalCriticalSection {
		return distsys.MPCalCriticalSection{Name: A + "." + label, Body: func(iface distsys.ArchetypeInterface) error {
			out, err := iface.RequireArchetypeResourceRef(A + ".out")
			if err != nil {
				return err
			}
			idx := []tla.Value{resOf(iface)}
			v, err := iface.Read(out, idx)
			if err != nil {
				return err
			}
			if v.Equal(iface.GetConstant("EMPTY_CELL")()) {
				return distsys.ErrCriticalSectionAborted
			}
			if !Fld(v, "tpe").Equal(iface.GetConstant(tpeConst)()) {
				return fmt.Errorf("%w: ((out)[RESOURCE_OF(self)]).tpe = %s, got %s", distsys.ErrAssertionFailed, tpeConst, v.String())
			}
			if err = iface.Write(out, idx, iface.GetConstant("EMPTY_CELL")()); err != nil {
				return err
			}
			next, err := post(iface)
			if err != nil {
				return err
			}
			return iface.Goto(A + "." + next)
		}}
	}
	setCommit := func(b bool) func(iface distsys.ArchetypeInterface) (string, error) {
		return func(iface distsys.ArchetypeInterface) (string, error) {
			return "criticalSection", wr(iface, "shouldCommit", B(b))
		}
	}
	jt := distsys.MakeMPCalJumpTable(
		distsys.MPCalCriticalSection{Name: A + ".criticalSection", Body: func(iface distsys.ArchetypeInterface) error {
			sc, err := rd(iface, "shouldCommit")
			if err != nil {
				return err
			}
			od, err := rd(iface, "opsDone")
			if err != nil {
				return err
			}
			more := tla.ModuleLessThanSymbol(od, iface.GetConstant("NUM_OPS")()).AsBool()
			b := iface.NextFairnessCounter(A+".criticalSection.0", 5)
			switch b {
			case 0:
				if sc.AsBool() {
					return distsys.ErrCriticalSectionAborted
				}
				return iface.Goto(A + ".Done")
			case 1, 2, 3:
				if !more {
					return distsys.ErrCriticalSectionAborted
				}
				if err = wr(iface, "opsDone", tla.ModulePlusSymbol(od, N(1))); err != nil {
					return err
				}
				if b == 2 {
					return iface.Goto(A + ".writeReq")
				}
				return iface.Goto(A + ".readReq")
			default:
				if !sc.AsBool() {
					return distsys.ErrCriticalSectionAborted
				}
				return iface.Goto(A + ".preCommitReq")
			}
		}},
		sendReq("readReq", "READ_REQ", "readAck", nil, false),
		recvAck("readAck", "READ_ACK", setCommit(true)),
		sendReq("abortReq", "ABORT_REQ", "abortAck", nil, false),
		recvAck("abortAck", "ABORT_ACK", func(iface distsys.ArchetypeInterface) (string, error) {
			if err := wr(iface, "writesPending", N(0)); err != nil {
				return "", err
			}
			return "criticalSection", wr(iface, "shouldCommit", B(false))
		}),
		sendReq("writeReq", "WRITE_REQ", "writeAck", func(iface distsys.ArchetypeInterface) error {
			wp, err := rd(iface, "writesPending")
			if err != nil {
				return err
			}
			return wr(iface, "writesPending", tla.ModulePlusSymbol(wp, N(1)))
		}, true),
		recvAck("writeAck", "WRITE_ACK", setCommit(true)),
		sendReq("preCommitReq", "PRECOMMIT_REQ", "preCommitAck", nil, false),
		recvAck("preCommitAck", "PRECOMMIT_ACK", func(iface distsys.ArchetypeInterface) (string, error) {
			od, err := rd(iface, "opsDone")
			if err != nil {
				return "", err
			}
			if iface.NextFairnessCounter(A+".preCommitAck.0", 2) == 0 {
				if !tla.ModuleLessThanSymbol(od, iface.GetConstant("NUM_OPS")()).AsBool() {
					return "", distsys.ErrCriticalSectionAborted
				}
				return "abortReq", wr(iface, "opsDone", tla.ModulePlusSymbol(od, N(1)))
			}
			return "commitReq", nil
		}),
		sendReq("commitReq", "COMMIT_REQ", "commitAck", nil, false),
		recvAck("commitAck", "COMMIT_ACK", func(iface distsys.ArchetypeInterface) (string, error) {
			wa, err := rd(iface, "writesAchieved")
			if err != nil {
				return "", err
			}
			wp, err := rd(iface, "writesPending")
			if err != nil {
				return "", err
			}
			if err = wr(iface, "writesAchieved", tla.ModulePlusSymbol(wa, wp)); err != nil {
				return "", err
			}
			if err = wr(iface, "writesPending", N(0)); err != nil {
				return "", err
			}
			return "criticalSection", wr(iface, "shouldCommit", B(false))
		}),
		distsys.MPCalCriticalSection{Name: A + ".Done", Body: func(distsys.ArchetypeInterface) error { return distsys.ErrDone }},
	)
	return distsys.MPCalArchetype{Name: A, Label: A + ".criticalSection", RequiredRefParams: []string{A + ".in", A + ".out"},
		RequiredValParams: []string{}, JumpTable: jt, ProcTable: distsys.MakeMPCalProcTable(),
		PreAmble: func(iface distsys.ArchetypeInterface) {
			iface.EnsureArchetypeResourceLocal(A+".opsDone", N(0))
			iface.EnsureArchetypeResourceLocal(A+".writesPending", N(0))
			iface.EnsureArchetypeResourceLocal(A+".writesAchieved", N(0))
			iface.EnsureArchetypeResourceLocal(A+".shouldCommit", B(false))
		}}
}

func init() {
	Register(Factory{Name: "nestedcrdtimpl", Tags: []string{"c02", "c16"}, New: func(seed int64, exact bool, rng *rand.Rand) *Sim {
		if exact {
			return NestedCRDT(seed, 1+rng.Intn(3), 1+rng.Intn(4), 1+rng.Intn(2))
		}
		return NestedCRDT(seed, 1+rng.Intn(4), 2+rng.Intn(7), 1+rng.Intn(3))
	}})
}

// NestedCRDT builds the system with node ids 1..numNodes (resources numNodes+1..2*numNodes).
func NestedCRDT(seed int64, numNodes, numOps, bufferSize int) *Sim {
	st := NewStore()
	var nids, rids []tla.Value
	for n := 1; n <= numNodes; n++ {
		nids = append(nids, N(n))
		rids = append(rids, N(numNodes+n))
	}
	nodeIDs, resIDs := Set(nids...), Set(rids...)
	st.Init("network", Fn(resIDs, K(Tup())))
	st.Init("in", Fn(resIDs, K(nestedEmptyCell)))
	st.Init("out", Fn(resIDs, K(nestedEmptyCell)))
	st.Init("peers", Fn(resIDs, func(r tla.Value) tla.Value { return tla.ModuleBackslashSymbol(resIDs, Set(r)) }))
	st.Init("timer", Fn(resIDs, K(B(true))))
	s := NewSched(seed, st)
	zero := tla.MakeRecord(nil)
	consts := []distsys.MPCalContextConfigFn{
		resources.NestedArchetypeConstantDefs, // READ_REQ … COMMIT_ACK as the real nested resource uses them
		distsys.DefineConstantValue("NODE_IDS", nodeIDs),
		distsys.DefineConstantValue("NUM_OPS", N(numOps)),
		distsys.DefineConstantValue("BUFFER_SIZE", N(bufferSize)),
		distsys.DefineConstantValue("EMPTY_CELL", nestedEmptyCell),
		distsys.DefineConstantValue("ZERO_VALUE", zero),
		distsys.DefineConstantOperator("COMBINE_FN", gcCombine),
		distsys.DefineConstantOperator("UPDATE_FN", gcUpdate),
		distsys.DefineConstantOperator("VIEW_FN", gcView),
	}
	pre := func(m *MRes, self tla.Value) distsys.ArchetypeResource {
		r, _ := m.Index(distsys.ArchetypeInterface{}, self)
		return r
	}
	nodeArch := nestedNodeArchetype()
	var nodes, ress []*Proc
	for n := 1; n <= numNodes; n++ {
		p := s.Add(N(n), nodeArch, map[string]string{"opsDone": "opsDone", "writesPending": "writesPending", "writesAchieved": "writesAchieved", "shouldCommit": "shouldCommit"},
			"node", append(consts,
				distsys.EnsureArchetypeRefParam("in", M(st, "in", 1, PlainR, PlainW)),
				distsys.EnsureArchetypeRefParam("out", M(st, "out", 1, PlainR, PlainW)))...)
		nodes = append(nodes, p)
	}
	for n := 1; n <= numNodes; n++ {
		self := N(numNodes + n)
		p := s.Add(self, nestedcrdtimpl.ACRDTResource, map[string]string{"remainingPeersToUpdate": "remainingPeersToUpdate", "req": "req",
			"criticalSectionInProgress": "criticalSectionInProgress", "state": "state", "readState": "readState"},
			"resource", append(consts,
				distsys.EnsureArchetypeRefParam("in", M(st, "in", 1, singleCellRead, singleCellWrite)),
				distsys.EnsureArchetypeRefParam("out", M(st, "out", 1, singleCellRead, singleCellWrite)),
				distsys.EnsureArchetypeRefParam("network", M(st, "network", 1, tcpChannelRead, tcpChannelWrite(bufferSize))),
				distsys.EnsureArchetypeRefParam("peers", pre(M(st, "peers", 1, PlainR, PlainW), self)),
				distsys.EnsureArchetypeRefParam("timer", pre(M(st, "timer", 1, PlainR, PlainW), self)))...)
		ress = append(ress, p)
	}
	// branch enabledness of ACRDTResource.receiveReq on the committed state (exact between attempts)
	branches := func(p *Proc) []uint {
		var en []uint
		self := p.Self
		if !st.Get("in").ApplyFunction(self).Equal(nestedEmptyCell) && st.Get("out").ApplyFunction(self).Equal(nestedEmptyCell) {
			en = append(en, 0)
		}
		if st.Get("network").ApplyFunction(self).AsTuple().Len() > 0 {
			en = append(en, 1)
		}
		for _, t := range Elems(p.Local("remainingPeersToUpdate")) {
			if st.Get("network").ApplyFunction(t).AsTuple().Len() < bufferSize {
				en = append(en, 2)
				break
			}
		}
		return en
	}
	// A replica none of whose three alternatives is enabled is not offered to the scheduler: its attempt could only
	// abort, and because it consults a choice the scheduler would keep it runnable and, under steep priorities, let
	// it crowd out every enabled process until the run is declared idle.
	s.Eligible = func(p *Proc, _ int) bool { return p.Group != "resource" || len(branches(p)) > 0 }
	// Choice oracle: for the resource's three-way either prefer branches whose leading await is enabled (an
	// attempt on a disabled branch only aborts); one attempt in eight still picks blindly so that the abort
	// paths of the generated code are exercised too.
	s.Choice = func(p *Proc, id string, ceiling uint) uint {
		if id == "ACRDTResource.receiveReq.0" && s.Rng.Intn(8) != 0 {
			if en := branches(p); len(en) > 0 {
				return en[s.Rng.Intn(len(en))]
			}
		}
		if id == "Node.criticalSection.0" {
			// the five alternatives of the spec; draw among the enabled ones
			sc := p.Local("shouldCommit").AsBool()
			more := int(p.Local("opsDone").AsNumber()) < numOps
			var en []uint
			if !sc {
				en = append(en, 0)
			} else {
				en = append(en, 4)
			}
			if more {
				en = append(en, 1, 2, 3, 2) // writes as likely as reads
			}
			return en[s.Rng.Intn(len(en))]
		}
		return uint(s.Rng.Intn(int(ceiling)))
	}

	q := func(v tla.Value) string { return v.String() }
	sim := &Sim{Name: "nestedcrdtimpl", Sched: s,
		SpecFiles: []string{nestedMCFile(), repoPath("systems/nestedcrdtimpl/NestedCRDTImpl.tla")}, Module: "NestedCRDTImplMC",
		Constants: []string{
			"NODE_IDS = " + strings.ReplaceAll(nodeIDs.String(), "\n", " "),
			fmt.Sprintf("NUM_OPS = %d", numOps), fmt.Sprintf("BUFFER_SIZE = %d", bufferSize),
			"READ_REQ = " + q(S("read_req")), "WRITE_REQ = " + q(S("write_req")), "ABORT_REQ = " + q(S("abort_req")),
			"PRECOMMIT_REQ = " + q(S("precommit_req")), "COMMIT_REQ = " + q(S("commit_req")),
			"READ_ACK = " + q(S("read_ack")), "WRITE_ACK = " + q(S("write_ack")), "ABORT_ACK = " + q(S("abort_ack")),
			"PRECOMMIT_ACK = " + q(S("precommit_ack")), "COMMIT_ACK = " + q(S("commit_ack")),
			"EMPTY_CELL <- MCEmptyCell", "ZERO_VALUE <- MCZero", "COMBINE_FN <- MCCombine", "UPDATE_FN <- MCUpdate", "VIEW_FN <- MCView",
		},
		// StateSanity as written sums over SETS of values and is not an invariant of the spec itself (see NOTES.md);
		// MCViewBounded is the same bound with proper sums, MonotonicState is an action property checked by the Go monitor.
		Invariants: []string{"MCViewBounded"},
		Params:     map[string]any{"NODE_IDS": numNodes, "NUM_OPS": numOps, "BUFFER_SIZE": bufferSize},
		MaxSteps:   200 + 40*numNodes*numOps + 20*numNodes*numNodes*numOps}

	comp := func(f tla.Value, k tla.Value) int {
		if v, ok := f.AsFunction().Get(k); ok {
			return int(v.AsNumber())
		}
		return 0
	}
	prevState := make([]tla.Value, numNodes)
	prevRem := make([]tla.Value, numNodes)
	for i := range prevState {
		prevState[i] = zero
		prevRem[i] = Set()
	}
	prevNet := st.Get("network")
	sim.Monitor = func(step Step) []Violation {
		var vs []Violation
		issued := 0
		for _, p := range nodes {
			issued += int(p.Local("writesPending").AsNumber()) + int(p.Local("writesAchieved").AsNumber())
		}
		for i, r := range ress {
			cur := r.Local("state")
			// MonotonicState: no component of a replica's state ever decreases (and none disappears)
			ks, _ := FnPairs(prevState[i])
			for _, k := range ks {
				if comp(cur, k) < comp(prevState[i], k) {
					vs = append(vs, Violation{"C16:nestedcrdtimpl:MonotonicState", fmt.Sprintf("resource %s: state[%s] went %d -> %d at step %d (%s by %s)", r.Self.String(), k.String(), comp(prevState[i], k), comp(cur, k), step.N, step.Label, step.Proc.Self.String())})
				}
			}
			if sumFn(cur) < sumFn(prevState[i]) {
				vs = append(vs, Violation{"C16:nestedcrdtimpl:counter-decreased", fmt.Sprintf("resource %s: counter value went %d -> %d at step %d (%s)", r.Self.String(), sumFn(prevState[i]), sumFn(cur), step.N, step.Label)})
			}
			prevState[i] = cur
			// a replica never shows more than was written (proper-sum form of StateSanity) …
			if v := sumFn(cur); v > issued {
				vs = append(vs, Violation{"C16:nestedcrdtimpl:view-exceeds-writes", fmt.Sprintf("resource %s reads %d but only %d writes are pending or achieved (step %d %s)", r.Self.String(), v, issued, step.N, step.Label)})
			}
			// … per origin: what any replica holds for node n's resource is bounded by n's writes, and n's own
			// resource holds at least what n has been told is committed
			for j, n := range nodes {
				wp, wa := int(n.Local("writesPending").AsNumber()), int(n.Local("writesAchieved").AsNumber())
				c := comp(cur, ress[j].Self)
				if c > wp+wa {
					vs = append(vs, Violation{"C16:nestedcrdtimpl:component-exceeds-writes", fmt.Sprintf("resource %s holds %d for node %s which has %d achieved + %d pending writes (step %d %s)", r.Self.String(), c, n.Self.String(), wa, wp, step.N, step.Label)})
				}
				if i == j && c < wa {
					vs = append(vs, Violation{"C16:nestedcrdtimpl:committed-write-lost", fmt.Sprintf("resource %s holds %d of its node's %d committed writes (step %d %s)", r.Self.String(), c, wa, step.N, step.Label)})
				}
			}
		}
		// broadcast discipline: a replica appends to network[t] only its current state, only for a peer t that was
		// in its to-update set, and t leaves the set in the same step
		netNow := st.Get("network")
		for i, r := range ress {
			remNow := r.Local("remainingPeersToUpdate")
			for _, t := range ress {
				ln, lp := netNow.ApplyFunction(t.Self).AsTuple().Len(), prevNet.ApplyFunction(t.Self).AsTuple().Len()
				if r != step.Proc || ln <= lp {
					continue
				}
				msgs := TupleElems(netNow.ApplyFunction(t.Self))
				if !tla.ModuleInSymbol(t.Self, prevRem[i]).AsBool() || tla.ModuleInSymbol(t.Self, remNow).AsBool() {
					vs = append(vs, Violation{"C16:nestedcrdtimpl:broadcast-outside-update-set", fmt.Sprintf("resource %s sent to %s; its to-update set went %s -> %s (step %d)", r.Self.String(), t.Self.String(), prevRem[i].String(), remNow.String(), step.N)})
				}
				if !msgs[len(msgs)-1].Equal(r.Local("state")) {
					vs = append(vs, Violation{"C16:nestedcrdtimpl:broadcast-not-current-state", fmt.Sprintf("resource %s sent %s, its state is %s (step %d)", r.Self.String(), msgs[len(msgs)-1].String(), r.Local("state").String(), step.N)})
				}
			}
			prevRem[i] = remNow
		}
		prevNet = netNow
		// equal knowledge => equal read: replicas holding the same vector must report the same value, and a READ_ACK
		// carries the view of the replica's critical-section snapshot
		if step.Label == "ACRDTResource.receiveReq" {
			self := step.Proc.Self
			o := st.Get("out").ApplyFunction(self)
			if HasFld(o, "tpe") && Fld(o, "tpe").Equal(S("read_ack")) && Fld(step.Proc.Local("req"), "tpe").Equal(S("read_req")) {
				if want := sumFn(step.Proc.Local("readState")); !HasFld(o, "value") || int(Fld(o, "value").AsNumber()) != want {
					vs = append(vs, Violation{"C16:nestedcrdtimpl:read-ack-value", fmt.Sprintf("resource %s answered %s, its snapshot %s reads %d (step %d)", self.String(), o.String(), step.Proc.Local("readState").String(), want, step.N)})
				}
			}
		}
		return vs
	}
	sim.Final = func(res RunResult) []Violation {
		var vs []Violation
		allDone := true
		total := 0
		for _, p := range nodes {
			if !procTerminated(p) {
				allDone = false
			}
			total += int(p.Local("writesAchieved").AsNumber())
		}
		quiet := true
		for _, r := range ress {
			if r.Local("remainingPeersToUpdate").AsSet().Len() > 0 || r.Local("criticalSectionInProgress").AsBool() ||
				st.Get("network").ApplyFunction(r.Self).AsTuple().Len() > 0 || !st.Get("in").ApplyFunction(r.Self).Equal(nestedEmptyCell) {
				quiet = false
			}
		}
		if allDone && quiet {
			// CRDTParity restated at quiescence: every replica reads the number of committed writes
			for _, r := range ress {
				if v := sumFn(r.Local("state")); v != total {
					vs = append(vs, Violation{"C16:nestedcrdtimpl:final-value", fmt.Sprintf("all nodes terminated and nothing is in flight; resource %s reads %d, committed writes = %d (state %s)", r.Self.String(), v, total, r.Local("state").String())})
				}
			}
		}
		if res.EndedIdle && allDone && !quiet {
			// "idle" from the scheduler only means that a number of attempts in a row aborted; attempts that consult a
			// choice may abort by bad luck. Decide enabledness on the state itself: a deadlock is reported only if no
			// action of the specification is enabled.
			enabled := false
			for _, n := range nodes {
				if procTerminated(n) {
					continue
				}
				if pc := n.TLAPC(); !strings.HasSuffix(pc, "Ack") || !st.Get("out").ApplyFunction(N(numNodes+int(n.Self.AsNumber()))).Equal(nestedEmptyCell) {
					enabled = true
				}
			}
			for _, r := range ress {
				if !st.Get("in").ApplyFunction(r.Self).Equal(nestedEmptyCell) && st.Get("out").ApplyFunction(r.Self).Equal(nestedEmptyCell) {
					enabled = true
				}
				if st.Get("network").ApplyFunction(r.Self).AsTuple().Len() > 0 {
					enabled = true
				}
				for _, t := range Elems(r.Local("remainingPeersToUpdate")) {
					if st.Get("network").ApplyFunction(t).AsTuple().Len() < bufferSize {
						enabled = true
					}
				}
			}
			if !enabled {
				var stuck []string
				for _, p := range append(append([]*Proc{}, nodes...), ress...) {
					if !p.Done {
						stuck = append(stuck, p.Arch.Name+"("+p.Self.String()+")@"+p.TLAPC())
					}
				}
				// every node terminated and nothing can move, yet a replica still has a critical section open or
				// peers to update: the spec's CRDTStabilises (<>[]CRDTsStabilised) restated at termination
				key := "C16:nestedcrdtimpl:not-stabilised-at-termination"
				vs = append(vs, Violation{key, fmt.Sprintf("all nodes terminated and no action is enabled, but the replicas are not stabilised: %v in=%s out=%s network=%s", stuck, st.Get("in").String(), st.Get("out").String(), st.Get("network").String())})
			}
		}
		return vs
	}
	return sim
}

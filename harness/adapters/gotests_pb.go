package adapters

// Adapters for the two primary-backup test pairs:
//   general/PBFail4_bug125 (module PBFail4): AReplica(ref net[_], ref fs[_], ref fd[_]) x NUM_REPLICAS, AClient(ref net[_], ref fd[_]) x NUM_CLIENTS
//   gogen/bug_167 (module pbkvs, an old pbkvs): AReplica x REPLICA_SET, APutClient x PUT_CLIENT_SET, AGetClient x GET_CLIENT_SET
// Tables read off pcal's translation (PBFail4: AClient.resp -> resp0, AClient.idx -> idx0; bug_167: APutClient
// req/resp/replica -> req0/resp0/replica0, AGetClient req/resp/body/replica -> req1/resp1/body0/replica1).

import (
	"fmt"
	"math/rand"
	"strings"

	. "verifh/simsched"

	"github.com/DistCompiler/pgo/distsys"
	"github.com/DistCompiler/pgo/distsys/tla"

	pbfail "github.com/DistCompiler/pgo/test/files/general/PBFail4_bug125.tla.gotests"
	bug167 "github.com/DistCompiler/pgo/test/files/gogen/bug_167.tla.gotests"
)

func init() {
	Register(Factory{Name: "gotests/PBFail4_bug125", Tags: []string{"c02"}, New: func(seed int64, exact bool, rng *rand.Rand) *Sim {
		return gtPBFail4(seed, 1+int(seed%3), 1+rng.Intn(2), 1+rng.Intn(3), rng.Intn(2) == 1)
	}})
	Register(Factory{Name: "gotests/bug_167", Tags: []string{"c02"}, New: func(seed int64, exact bool, rng *rand.Rand) *Sim {
		// at least one put client: only PUTs start replication rounds (NUM_PUT_CLIENTS = 0 is covered by seed%8 == 7)
		nPut := 1 + rng.Intn(2)
		if seed%8 == 7 {
			nPut = 0
		}
		return gtBug167(seed, 1+int(seed%3), nPut, rng.Intn(3), seed%4 != 3)
	}})
}

// gtLocalsFn adds one function-valued variable per (Go local, TLA+ name) over the given processes.
func (x *GotestsExtra) gtLocalsFn(procs []*Proc, arch string, table [][2]string) {
	for _, t := range table {
		var es []gtEntry
		for _, p := range procs {
			es = append(es, gtEntry{Self: p.Self, Get: gtGet(p, arch+"."+t[0])})
		}
		x.fn(t[1], es)
	}
}

func gtTableMap(arch string, table [][2]string) map[string]string {
	m := map[string]string{}
	for _, t := range table {
		m[arch+"."+t[0]] = t[1] + "[self]"
	}
	return m
}

// ---------------------------------------------------------------------------------------------------------
// PBFail4_bug125
// ---------------------------------------------------------------------------------------------------------

func gtPBFail4(seed int64, nRep, nCli, bufSize int, exploreFail bool) *Sim {
	sp := GotestsArtefact("general/PBFail4_bug125")
	if sp.Err != nil {
		return gtSpecFail("gotests/PBFail4_bug125", sp)
	}
	st := NewStore()
	nodes := tla.ModuleDotDotSymbol(N(1), N(nRep+nCli))
	st.Init("network", tla.MakeFunction([]tla.Value{nodes, tla.ModuleDotDotSymbol(N(1), N(4))}, func([]tla.Value) tla.Value { return Tup() }))
	st.Init("fd", Fn(nodes, K(B(true))))
	st.Init("fs", tla.MakeFunction([]tla.Value{nodes, Set(S("KEY1"))}, func([]tla.Value) tla.Value { return Tup() }))
	s := NewSched(seed, st)
	s.IdleRounds = 6
	consts := func() []distsys.MPCalContextConfigFn {
		return []distsys.MPCalContextConfigFn{
			distsys.DefineConstantValue("BUFFER_SIZE", N(bufSize)), distsys.DefineConstantValue("NUM_REPLICAS", N(nRep)),
			distsys.DefineConstantValue("NUM_CLIENTS", N(nCli)), distsys.DefineConstantValue("EXPLORE_FAIL", B(exploreFail)),
			// TCPChannel / FailureDetector mapping macros
			distsys.EnsureArchetypeRefParam("net", M(st, "network", 1, gtTCPChannelRead, gtTCPChannelWrite(bufSize))),
			distsys.EnsureArchetypeRefParam("fd", M(st, "fd", 1, PlainR, PlainW)),
		}
	}
	repTable := [][2]string{{"msg", "msg"}, {"respBody", "respBody"}, {"respTyp", "respTyp"}, {"idx", "idx"}, {"repMsg", "repMsg"}, {"rep", "rep"}, {"resp", "resp"}}
	cliTable := [][2]string{{"req", "req"}, {"resp", "resp0"}, {"idx", "idx0"}, {"body", "body"}}
	x := &GotestsExtra{Spec: sp, Tables: map[string]any{
		"processes": map[string]string{
			"Replica \\in 1..NUM_REPLICAS":                         "AReplica(ref network[_] via TCPChannel, ref fs[_] via FileSystem, ref fd[_] via FailureDetector)",
			"Client \\in NUM_REPLICAS+1..NUM_REPLICAS+NUM_CLIENTS": "AClient(ref network[_] via TCPChannel, ref fd[_] via FailureDetector)"},
		"locals": map[string]any{"AReplica": gtTableMap("AReplica", repTable), "AClient": gtTableMap("AClient", cliTable)},
	}}
	var reps, clis []*Proc
	for i := 1; i <= nRep; i++ {
		p := s.Add(N(i), pbfail.AReplica, nil, "Replica", append(consts(), distsys.EnsureArchetypeRefParam("fs", M(st, "fs", 1, PlainR, PlainW)))...)
		x.wrap(p, nil, nil, nil)
		reps = append(reps, p)
	}
	for i := nRep + 1; i <= nRep+nCli; i++ {
		p := s.Add(N(i), pbfail.AClient, nil, "Client", consts()...)
		x.wrap(p, nil, nil, nil)
		clis = append(clis, p)
	}
	x.pcAndStack(nil, false)
	x.global(st, "network")
	x.global(st, "fd")
	x.global(st, "fs")
	x.gtLocalsFn(reps, "AReplica", repTable)
	x.gtLocalsFn(clis, "AClient", cliTable)
	sim := &Sim{Name: "gotests/PBFail4_bug125", Sched: s, SpecFiles: sp.Files, Module: sp.WrapModule,
		Constants: []string{fmt.Sprintf("BUFFER_SIZE = %d", bufSize), fmt.Sprintf("NUM_REPLICAS = %d", nRep), fmt.Sprintf("NUM_CLIENTS = %d", nCli),
			fmt.Sprintf("EXPLORE_FAIL = %s", map[bool]string{true: "TRUE", false: "FALSE"}[exploreFail])},
		Params:   map[string]any{"BUFFER_SIZE": bufSize, "NUM_REPLICAS": nRep, "NUM_CLIENTS": nCli, "EXPLORE_FAIL": exploreFail},
		MaxSteps: 150}
	return gtRegister(sim, x)
}

// ---------------------------------------------------------------------------------------------------------
// bug_167 (module pbkvs)
// ---------------------------------------------------------------------------------------------------------

// ReliableFIFOLink over network[<<id, idx>>] = [queue |-> <<...>>, enabled |-> BOOLEAN]
func gtRFLRead(_ distsys.ArchetypeInterface, _ []tla.Value, c tla.Value) (tla.Value, tla.Value, error) {
	if !Fld(c, "enabled").AsBool() {
		return c, c, gtAssertErr("$variable.enabled") // assert $variable.enabled
	}
	q := Fld(c, "queue")
	if q.AsTuple().Len() == 0 { // await Len($variable.queue) > 0
		return c, c, ErrAbort
	}
	return Rec("queue", tla.ModuleTail(q), "enabled", Fld(c, "enabled")), tla.ModuleHead(q), nil
}

func gtRFLWrite(_ distsys.ArchetypeInterface, _ []tla.Value, c, v tla.Value) (tla.Value, error) {
	if !Fld(c, "enabled").AsBool() { // await $variable.enabled
		return c, ErrAbort
	}
	return Rec("queue", tla.ModuleAppend(Fld(c, "queue"), v), "enabled", Fld(c, "enabled")), nil
}

// NetworkToggle
func gtToggleRead(_ distsys.ArchetypeInterface, _ []tla.Value, c tla.Value) (tla.Value, tla.Value, error) {
	return c, Fld(c, "enabled"), nil
}
func gtToggleWrite(_ distsys.ArchetypeInterface, _ []tla.Value, c, v tla.Value) (tla.Value, error) {
	return Rec("queue", Fld(c, "queue"), "enabled", v), nil
}

// NetworkBufferLength
func gtNetLenRead(_ distsys.ArchetypeInterface, _ []tla.Value, c tla.Value) (tla.Value, tla.Value, error) {
	return c, N(Fld(c, "queue").AsTuple().Len()), nil
}
func gtNetLenWrite(_ distsys.ArchetypeInterface, _ []tla.Value, c, _ tla.Value) (tla.Value, error) {
	return c, gtAssertErr("FALSE (write through NetworkBufferLength)")
}

// LeaderElection over primary (a set of replica ids)
func gtLeaderRead(_ distsys.ArchetypeInterface, _ []tla.Value, c tla.Value) (tla.Value, tla.Value, error) {
	es := Elems(c) // numeric order: the CHOOSE picks the unique minimum
	if len(es) == 0 {
		return c, N(0), nil // NULL
	}
	return c, es[0], nil
}
func gtLeaderWrite(_ distsys.ArchetypeInterface, _ []tla.Value, c, v tla.Value) (tla.Value, error) {
	return tla.ModuleBackslashSymbol(c, Set(v)), nil
}

// gtLinkDisabled reports whether network[<<id, idx>>].enabled is FALSE in a rendered state.
func gtLinkDisabled(state string, id, idx int) bool {
	key := fmt.Sprintf(`(<<%d, %d>>) :> (`, id, idx)
	i := strings.Index(state, key)
	if i < 0 {
		return false
	}
	rest := state[i+len(key):]
	j := strings.Index(rest, `("enabled") :> (`)
	if j < 0 {
		return false
	}
	return strings.HasPrefix(rest[j+len(`("enabled") :> (`):], "FALSE")
}

func gtBug167(seed int64, nRep, nPut, nGet int, exploreFail bool) *Sim {
	sp := GotestsArtefact("gogen/bug_167")
	if sp.Err != nil {
		return gtSpecFail("gotests/bug_167", sp)
	}
	if nPut+nGet == 0 {
		nPut = 1
	}
	st := NewStore()
	nNodes := nRep + nPut + nGet
	nodes := tla.ModuleDotDotSymbol(N(1), N(nNodes))
	replicas := tla.ModuleDotDotSymbol(N(1), N(nRep))
	st.Init("network", tla.MakeFunction([]tla.Value{nodes, Set(N(1), N(2))}, func([]tla.Value) tla.Value { return Rec("queue", Tup(), "enabled", B(true)) }))
	st.Init("fd", Fn(replicas, K(B(false))))
	st.Init("fs", Fn(replicas, K(Fn(Set(S("KEY1")), K(S(""))))))
	st.Init("primary", replicas)
	s := NewSched(seed, st)
	s.IdleRounds = 6
	// mayFail: crash rarely at the top of the loop (otherwise runs are nothing but crashes), more often in the middle
	// of a replication round (the interesting crash points: after a send / after a receive)
	failPct := map[string]int{"AReplica.replicaLoop.0": 2, "AReplica.sndSyncReqLoop.1": 25, "AReplica.sndReplicaReqLoop.1": 25, "AReplica.rcvReplicaRespLoop.1": 25}
	s.Choice = func(p *Proc, id string, ceiling uint) uint {
		if pct, ok := failPct[id]; ok {
			if s.Rng.Intn(100) < pct {
				return 1
			}
			return 0
		}
		return uint(s.Rng.Intn(int(ceiling)))
	}
	common := func() []distsys.MPCalContextConfigFn {
		return []distsys.MPCalContextConfigFn{
			distsys.DefineConstantValue("NUM_REPLICAS", N(nRep)), distsys.DefineConstantValue("NUM_PUT_CLIENTS", N(nPut)),
			distsys.DefineConstantValue("NUM_GET_CLIENTS", N(nGet)), distsys.DefineConstantValue("EXPLORE_FAIL", B(exploreFail)),
			distsys.DefineConstantValue("GET_CLIENT_RUN", B(true)), distsys.DefineConstantValue("PUT_CLIENT_RUN", B(true)),
			distsys.EnsureArchetypeRefParam("net", M(st, "network", 1, gtRFLRead, gtRFLWrite)),           // ReliableFIFOLink
			distsys.EnsureArchetypeRefParam("fd", M(st, "fd", 1, PlainR, PlainW)),                        // PerfectFD
			distsys.EnsureArchetypeRefParam("primary", M(st, "primary", 0, gtLeaderRead, gtLeaderWrite)), // LeaderElection
			distsys.EnsureArchetypeRefParam("netLen", M(st, "network", 1, gtNetLenRead, gtNetLenWrite)),  // NetworkBufferLength
		}
	}
	repTable := [][2]string{{"req", "req"}, {"respBody", "respBody"}, {"respTyp", "respTyp"}, {"idx", "idx"}, {"repReq", "repReq"}, {"repResp", "repResp"}, {"resp", "resp"},
		{"replicaSet", "replicaSet"}, {"shouldSync", "shouldSync"}, {"lastPutBody", "lastPutBody"}, {"replica", "replica"}}
	putTable := [][2]string{{"req", "req0"}, {"resp", "resp0"}, {"body", "body"}, {"replica", "replica0"}}
	getTable := [][2]string{{"req", "req1"}, {"resp", "resp1"}, {"body", "body0"}, {"replica", "replica1"}}
	x := &GotestsExtra{Spec: sp, Tables: map[string]any{
		"processes": map[string]string{
			"Replica \\in REPLICA_SET":      "AReplica(ref network[_] via ReliableFIFOLink, ref fs[_][_] via FileSystem, ref fd[_] via PerfectFD, ref network[_] via NetworkToggle, ref primary via LeaderElection, ref network[_] via NetworkBufferLength)",
			"PutClient \\in PUT_CLIENT_SET": "APutClient(ref network[_] via ReliableFIFOLink, ref fd[_] via PerfectFD, ref primary via LeaderElection, ref network[_] via NetworkBufferLength)",
			"GetClient \\in GET_CLIENT_SET": "AGetClient(same bindings as APutClient)"},
		"locals": map[string]any{"AReplica": gtTableMap("AReplica", repTable), "APutClient": gtTableMap("APutClient", putTable), "AGetClient": gtTableMap("AGetClient", getTable)},
	}}
	var reps, puts, gets []*Proc
	for i := 1; i <= nRep; i++ {
		p := s.Add(N(i), bug167.AReplica, nil, "Replica", append(common(),
			distsys.EnsureArchetypeRefParam("fs", M(st, "fs", 2, PlainR, PlainW)),                               // FileSystem
			distsys.EnsureArchetypeRefParam("netEnabled", M(st, "network", 1, gtToggleRead, gtToggleWrite)))...) // NetworkToggle
		x.wrap(p, nil, nil, nil)
		reps = append(reps, p)
	}
	for i := nRep + 1; i <= nRep+nPut; i++ {
		p := s.Add(N(i), bug167.APutClient, nil, "PutClient", common()...)
		x.wrap(p, nil, nil, nil)
		puts = append(puts, p)
	}
	for i := nRep + nPut + 1; i <= nNodes; i++ {
		p := s.Add(N(i), bug167.AGetClient, nil, "GetClient", common()...)
		x.wrap(p, nil, nil, nil)
		gets = append(gets, p)
	}
	// order of pcal's VARIABLES: network, fd, fs, primary, pc, <locals>
	x.global(st, "network")
	x.global(st, "fd")
	x.global(st, "fs")
	x.global(st, "primary")
	x.pcAndStack(nil, false)
	x.gtLocalsFn(reps, "AReplica", repTable)
	x.gtLocalsFn(puts, "APutClient", putTable)
	x.gtLocalsFn(gets, "AGetClient", getTable)
	// Known disagreement of the checked-in PlusCal with the Go (and with the MPCal source): in the three labels where
	// mayFail() follows an update of `network` made earlier in the same step (sndSyncReqLoop, sndReplicaReqLoop after
	// a send; rcvReplicaRespLoop after a receive) the PlusCal computes the first mayFail write into a fresh binding
	// (network2/6/10) and then bases the second write on the OLD binding, so only the RESP link is disabled; the Go
	// disables both links as the MPCal says.
	x.Classify = func(r GotestsRejection) string {
		if r.Kind != "step-not-in-Next" {
			return ""
		}
		switch r.GoLabel {
		case "AReplica.sndSyncReqLoop", "AReplica.sndReplicaReqLoop", "AReplica.rcvReplicaRespLoop":
			var self int
			if _, err := fmt.Sscanf(r.Step, "AReplica(%d)", &self); err != nil {
				return ""
			}
			failed := strings.Contains(r.After, fmt.Sprintf(`(%d) :> ("failLabel")`, self))
			reqOff := gtLinkDisabled(r.After, self, 1)
			if failed && reqOff && !gtLinkDisabled(r.Before, self, 1) {
				return "C02:bug_167:mayFail-after-network-update-loses-first-write"
			}
		}
		return ""
	}
	tf := map[bool]string{true: "TRUE", false: "FALSE"}
	sim := &Sim{Name: "gotests/bug_167", Sched: s, SpecFiles: sp.Files, Module: sp.WrapModule,
		Constants: []string{fmt.Sprintf("NUM_REPLICAS = %d", nRep), fmt.Sprintf("NUM_PUT_CLIENTS = %d", nPut), fmt.Sprintf("NUM_GET_CLIENTS = %d", nGet),
			"EXPLORE_FAIL = " + tf[exploreFail], "GET_CLIENT_RUN = TRUE", "PUT_CLIENT_RUN = TRUE"},
		Params:   map[string]any{"NUM_REPLICAS": nRep, "NUM_PUT_CLIENTS": nPut, "NUM_GET_CLIENTS": nGet, "EXPLORE_FAIL": exploreFail},
		MaxSteps: 250}
	return gtRegister(sim, x)
}

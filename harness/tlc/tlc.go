// Package tlc uses the installed TLC purely as an evaluator over recorded data: "is this recorded
// sequence of states a behaviour of the shipped spec's Next (and do the spec's invariants hold in the
// visited states)". TLC never explores a state space here: TNext pins every variable of the successor.
package tlc

import (
	"context"
	"fmt"
	"os"
	"os/exec"
	"path/filepath"
	"regexp"
	"strconv"
	"strings"
	"time"
)

// TraceJob describes one trace validation.
type TraceJob struct {
	SpecFiles  []string // .tla files to copy next to the trace module (first one is EXTENDed)
	Module     string   // module name to EXTEND (e.g. "locksvc")
	Constants  []string // lines for the cfg, e.g. "NumClients = 2"
	Invariants []string // spec invariants to evaluate on the visited states
	Vars       []string // every variable of the spec, in any order
	States     []string // TLA+ records, one per state, fields = Vars
	ActionProp []string // optional action-level formulas (checked as [][F]_vars via TNext conjunct)
	ExtraDefs  string   // optional extra definitions placed before Trace
	NoInit     bool     // the first state is not required to satisfy Init (continuation chunk of a longer trace)
	Timeout    time.Duration
}

// Verdict of a trace validation.
type Verdict struct {
	Accepted     bool   // the whole trace is a behaviour of Next and every invariant held
	RejectedAt   int    // if !Accepted and Kind=="step": the 1-based index i such that (s_i, s_{i+1}) is not a Next step
	Kind         string // "ok" | "step" | "invariant" | "init" | "assert" | "error" | "timeout"
	Invariant    string // violated invariant name when Kind=="invariant"
	InvariantAt  int    // length of the prefix at which the invariant failed
	Detail       string // tail of TLC's output
	Wall         time.Duration
	StatesLoaded int
}

var reDepth = regexp.MustCompile(`The depth of the complete state graph search is (\d+)`)
var reInv = regexp.MustCompile(`Invariant (\S+) is violated`)
var reStateNum = regexp.MustCompile(`(?m)^State (\d+):`)

// CheckTrace writes TraceCheck.tla/.cfg into a fresh scratch directory under dir and runs TLC.
func CheckTrace(dir string, job TraceJob) Verdict {
	start := time.Now()
	v := Verdict{StatesLoaded: len(job.States)}
	work, err := os.MkdirTemp(dir, "tlc-")
	if err != nil {
		return Verdict{Kind: "error", Detail: err.Error()}
	}
	defer os.RemoveAll(work)
	for _, f := range job.SpecFiles {
		buf, err := os.ReadFile(f)
		if err != nil {
			return Verdict{Kind: "error", Detail: err.Error()}
		}
		if err := os.WriteFile(filepath.Join(work, filepath.Base(f)), buf, 0o644); err != nil {
			return Verdict{Kind: "error", Detail: err.Error()}
		}
	}
	var b strings.Builder
	fmt.Fprintf(&b, "---- MODULE TraceCheck ----\nEXTENDS %s\nVARIABLE tri\n%s\nTrace == <<\n", job.Module, job.ExtraDefs)
	b.WriteString(strings.Join(job.States, ",\n"))
	if job.NoInit {
		b.WriteString("\n>>\nTInit == tri = 1")
	} else {
		b.WriteString("\n>>\nTInit == tri = 1 /\\ Init")
	}
	for _, x := range job.Vars {
		fmt.Fprintf(&b, "\n  /\\ %s = Trace[1].%s", x, x)
	}
	b.WriteString("\nTNext == /\\ tri < Len(Trace) /\\ tri' = tri + 1 /\\ Next")
	for _, x := range job.Vars {
		fmt.Fprintf(&b, "\n  /\\ %s' = Trace[tri+1].%s", x, x)
	}
	for _, a := range job.ActionProp {
		fmt.Fprintf(&b, "\n  /\\ %s", a)
	}
	b.WriteString("\nTSpec == TInit /\\ [][TNext]_<<vars, tri>>\nTraceNotDone == tri < Len(Trace)\n====\n")
	if err := os.WriteFile(filepath.Join(work, "TraceCheck.tla"), []byte(b.String()), 0o644); err != nil {
		return Verdict{Kind: "error", Detail: err.Error()}
	}
	var c strings.Builder
	c.WriteString("CONSTANT defaultInitValue = defaultInitValue\n")
	for _, k := range job.Constants {
		fmt.Fprintf(&c, "CONSTANT %s\n", k)
	}
	c.WriteString("SPECIFICATION TSpec\nINVARIANT TraceNotDone\n")
	for _, i := range job.Invariants {
		fmt.Fprintf(&c, "INVARIANT %s\n", i)
	}
	c.WriteString("CHECK_DEADLOCK FALSE\n")
	if err := os.WriteFile(filepath.Join(work, "TraceCheck.cfg"), []byte(c.String()), 0o644); err != nil {
		return Verdict{Kind: "error", Detail: err.Error()}
	}
	to := job.Timeout
	if to == 0 {
		to = 5 * time.Minute
	}
	ctx, cancel := context.WithTimeout(context.Background(), to)
	defer cancel()
	heap := "-Xmx3g"
	if len(job.States) > 350 { // the trace literal dominates TLC's memory
		heap = "-Xmx10g"
	}
	cmd := exec.CommandContext(ctx, "java", "-XX:+UseSerialGC", heap, "-cp",
		"/opt/veriftools/tla/tla2tools.jar:/opt/veriftools/tla/CommunityModules-deps.jar", "tlc2.TLC",
		"-workers", "1", "-metadir", filepath.Join(work, "states"), "-config", "TraceCheck.cfg", "TraceCheck.tla")
	cmd.Dir = work
	out, _ := cmd.CombinedOutput()
	v.Wall = time.Since(start)
	text := string(out)
	tailN := func(n int) string {
		if len(text) > n {
			return text[len(text)-n:]
		}
		return text
	}
	if ctx.Err() != nil {
		v.Kind, v.Detail = "timeout", tailN(1500)
		return v
	}
	if m := reInv.FindStringSubmatch(text); m != nil {
		// count the states of the printed counter-example = length of the accepted prefix
		n := 0
		for _, sm := range reStateNum.FindAllStringSubmatch(text, -1) {
			if k, _ := strconv.Atoi(sm[1]); k > n {
				n = k
			}
		}
		if m[1] == "TraceNotDone" {
			v.Accepted, v.Kind = true, "ok"
			return v
		}
		v.Kind, v.Invariant, v.InvariantAt, v.Detail = "invariant", m[1], n, tailN(3000)
		return v
	}
	if strings.Contains(text, "The first argument of Assert evaluated to FALSE") || strings.Contains(text, "Assertion failed") {
		v.Kind, v.Detail = "assert", tailN(3000)
		return v
	}
	if m := reDepth.FindStringSubmatch(text); m != nil && strings.Contains(text, "No error has been found") {
		d, _ := strconv.Atoi(m[1])
		if d == 0 || regexp.MustCompile(`(^|[^0-9])0 distinct states found`).MatchString(text) {
			v.Kind, v.Detail = "init", tailN(2000)
			return v
		}
		v.Kind, v.RejectedAt, v.Detail = "step", d, tailN(800)
		return v
	}
	v.Kind, v.Detail = "error", tailN(4000)
	return v
}

// EvalJob evaluates constant expressions in the context of a module.
type EvalJob struct {
	SpecFiles []string
	Module    string   // module to EXTEND ("" = Naturals, Integers, Sequences, FiniteSets, TLC)
	Constants []string // cfg CONSTANT lines (only if Module != "")
	Exprs     []string
	Timeout   time.Duration
}

var rePrint = regexp.MustCompile(`(?m)^<<"VERIFEVAL", (\d+), (.*)>>$`)

// Eval returns the printed value of each expression ("" where TLC printed nothing, e.g. after an error) and TLC's raw output.
func Eval(dir string, job EvalJob) ([]string, string, error) {
	work, err := os.MkdirTemp(dir, "tlceval-")
	if err != nil {
		return nil, "", err
	}
	defer os.RemoveAll(work)
	for _, f := range job.SpecFiles {
		buf, err := os.ReadFile(f)
		if err != nil {
			return nil, "", err
		}
		os.WriteFile(filepath.Join(work, filepath.Base(f)), buf, 0o644)
	}
	ext := job.Module
	if ext == "" {
		ext = "Naturals, Integers, Sequences, FiniteSets, TLC"
	} else {
		ext += ", TLC"
	}
	var b strings.Builder
	fmt.Fprintf(&b, "---- MODULE EvalCheck ----\nEXTENDS %s\nVARIABLE evx\n", ext)
	for i, e := range job.Exprs {
		fmt.Fprintf(&b, "ASSUME PrintT(<<\"VERIFEVAL\", %d, %s>>)\n", i, e)
	}
	b.WriteString("EInit == evx = 0\nENext == UNCHANGED evx\n====\n")
	os.WriteFile(filepath.Join(work, "EvalCheck.tla"), []byte(b.String()), 0o644)
	var c strings.Builder
	if job.Module != "" {
		c.WriteString("CONSTANT defaultInitValue = defaultInitValue\n")
		for _, k := range job.Constants {
			fmt.Fprintf(&c, "CONSTANT %s\n", k)
		}
	}
	c.WriteString("INIT EInit\nNEXT ENext\nCHECK_DEADLOCK FALSE\n")
	os.WriteFile(filepath.Join(work, "EvalCheck.cfg"), []byte(c.String()), 0o644)
	to := job.Timeout
	if to == 0 {
		to = 3 * time.Minute
	}
	ctx, cancel := context.WithTimeout(context.Background(), to)
	defer cancel()
	cmd := exec.CommandContext(ctx, "java", "-XX:+UseSerialGC", "-Xmx2g", "-cp",
		"/opt/veriftools/tla/tla2tools.jar:/opt/veriftools/tla/CommunityModules-deps.jar", "tlc2.TLC",
		"-workers", "1", "-metadir", filepath.Join(work, "states"), "-config", "EvalCheck.cfg", "EvalCheck.tla")
	cmd.Dir = work
	out, _ := cmd.CombinedOutput()
	if ctx.Err() != nil {
		return nil, string(out), fmt.Errorf("tlc eval timeout")
	}
	res := make([]string, len(job.Exprs))
	for _, m := range rePrint.FindAllStringSubmatch(string(out), -1) {
		i, _ := strconv.Atoi(m[1])
		if i >= 0 && i < len(res) {
			res[i] = m[2]
		}
	}
	return res, string(out), nil
}

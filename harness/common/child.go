package common

import (
	"bufio"
	"context"
	"encoding/json"
	"fmt"
	"os"
	"os/exec"
	"path/filepath"
	"strings"
	"sync"
	"syscall"
	"time"
)

// ChildRole returns the role this process was re-executed for ("" in the parent).
func ChildRole() string { return os.Getenv("VERIF_CHILD") }

// ChildResult is what the parent learns about one child process.
type ChildResult struct {
	ExitCode int
	TimedOut bool   // parent watchdog fired (inconclusive unless a logical criterion says otherwise)
	Output   string // combined stdout+stderr (tail-limited)
	OutPath  string // file holding the complete output
	Wall     time.Duration
}

// Scratch creates a scratch directory outside /repo and /verif; the caller removes it.
func Scratch(prefix string) string {
	base := os.Getenv("VERIF_SCRATCH")
	if base == "" {
		base = os.TempDir()
	}
	d, err := os.MkdirTemp(base, "verif-"+prefix+"-")
	if err != nil {
		panic(err)
	}
	return d
}

// RunChild re-executes the current binary (or exe if non-empty) with VERIF_CHILD=role and the given
// extra environment and arguments; output goes to a file in dir. On watchdog expiry the child gets
// SIGQUIT (goroutine dump lands in the output file) and then SIGKILL.
func RunChild(exe, role, dir string, env []string, watchdog time.Duration, args ...string) ChildResult {
	if exe == "" {
		var err error
		exe, err = os.Executable()
		if err != nil {
			panic(err)
		}
	}
	outPath := filepath.Join(dir, fmt.Sprintf("child-%s-%d.out", role, time.Now().UnixNano()))
	out, err := os.Create(outPath)
	if err != nil {
		panic(err)
	}
	defer out.Close()
	ctx, cancel := context.WithCancel(context.Background())
	defer cancel()
	cmd := exec.CommandContext(ctx, exe, args...)
	cmd.Env = append(append(os.Environ(), "VERIF_CHILD="+role), env...)
	cmd.Stdout = out
	cmd.Stderr = out
	cmd.SysProcAttr = &syscall.SysProcAttr{Setpgid: true}
	start := time.Now()
	res := ChildResult{OutPath: outPath}
	if err := cmd.Start(); err != nil {
		res.ExitCode = -1
		res.Output = err.Error()
		return res
	}
	done := make(chan error, 1)
	go func() { done <- cmd.Wait() }()
	select {
	case err = <-done:
	case <-time.After(watchdog):
		res.TimedOut = true
		_ = syscall.Kill(-cmd.Process.Pid, syscall.SIGQUIT)
		select {
		case err = <-done:
		case <-time.After(5 * time.Second):
			_ = syscall.Kill(-cmd.Process.Pid, syscall.SIGKILL)
			err = <-done
		}
	}
	res.Wall = time.Since(start)
	if err != nil {
		if ee, ok := err.(*exec.ExitError); ok {
			res.ExitCode = ee.ExitCode()
		} else {
			res.ExitCode = -1
		}
	}
	buf, _ := os.ReadFile(outPath)
	if len(buf) > 1<<20 {
		buf = buf[len(buf)-(1<<20):]
	}
	res.Output = string(buf)
	return res
}

// Parallel runs f(i) for i in [0,n) on up to workers goroutines.
func Parallel(n, workers int, f func(i int)) {
	if workers < 1 {
		workers = 1
	}
	var wg sync.WaitGroup
	ch := make(chan int)
	for w := 0; w < workers; w++ {
		wg.Add(1)
		go func() {
			defer wg.Done()
			for i := range ch {
				f(i)
			}
		}()
	}
	for i := 0; i < n; i++ {
		ch <- i
	}
	close(ch)
	wg.Wait()
}

// JSONLWriter writes one JSON object per line, thread-safe, with a global sequence number.
type JSONLWriter struct {
	mu  sync.Mutex
	f   *os.File
	w   *bufio.Writer
	seq int64
}

func NewJSONLWriter(path string) *JSONLWriter {
	f, err := os.Create(path)
	if err != nil {
		panic(err)
	}
	return &JSONLWriter{f: f, w: bufio.NewWriterSize(f, 1<<16)}
}

// Emit appends rec with "seq" set; returns the sequence number.
func (j *JSONLWriter) Emit(rec map[string]any) int64 {
	j.mu.Lock()
	defer j.mu.Unlock()
	j.seq++
	rec["seq"] = j.seq
	buf, err := json.Marshal(rec)
	if err != nil {
		buf = []byte(fmt.Sprintf(`{"seq":%d,"kind":"encode-error","err":%q}`, j.seq, err.Error()))
	}
	j.w.Write(buf)
	j.w.WriteByte('\n')
	return j.seq
}

func (j *JSONLWriter) Close() {
	j.mu.Lock()
	defer j.mu.Unlock()
	j.w.Flush()
	j.f.Close()
}

// ReadJSONL parses a JSON-lines file; complete reports whether the trailing {"kind":"end"} record was seen.
func ReadJSONL(path string) (recs []map[string]any, complete bool, err error) {
	f, err := os.Open(path)
	if err != nil {
		return nil, false, err
	}
	defer f.Close()
	sc := bufio.NewScanner(f)
	sc.Buffer(make([]byte, 1<<20), 1<<28)
	for sc.Scan() {
		line := strings.TrimSpace(sc.Text())
		if line == "" {
			continue
		}
		var m map[string]any
		if err := json.Unmarshal([]byte(line), &m); err != nil {
			continue // torn last line of a crashed child
		}
		if m["kind"] == "end" {
			complete = true
		}
		recs = append(recs, m)
	}
	return recs, complete, sc.Err()
}

// Package common holds the plumbing every check shares: tier/seed parsing,
// violation reporting against the committed known-findings file, replay files,
// evidence writing and exit codes.
package common

import (
	"encoding/json"
	"fmt"
	"math/rand"
	"os"
	"path/filepath"
	"sort"
	"strconv"
	"strings"
	"sync"
	"time"
)

// Root returns the /verif directory (VERIF_ROOT, set by the vcheck driver).
func Root() string {
	if r := os.Getenv("VERIF_ROOT"); r != "" {
		return r
	}
	return "/verif"
}

type finding struct {
	Property    string `json:"property"`
	Key         string `json:"key"`
	Description string `json:"description"`
	Status      string `json:"status"` // "open" or "fixed:<commit>"
}

type findingsFile struct {
	Findings []finding `json:"findings"`
}

// Run is the state of one check invocation.
type Run struct {
	Prop  string
	Tier  string // quick | thorough
	Seed  int64
	Level string

	Replay string // non-empty: --replay <path>

	mu           sync.Mutex
	start        time.Time
	open         map[string]finding
	knownHits    map[string]int
	violations   int
	violKeys     map[string]int
	inconclusive []string
	notes        []string
	replayN      int
}

// Start parses the command line (`<quick|thorough>` or `--replay <file>`) and the environment.
func Start(prop, level string) *Run {
	r := &Run{Prop: prop, Level: level, Tier: "quick", Seed: 1, start: time.Now(),
		open: map[string]finding{}, knownHits: map[string]int{}, violKeys: map[string]int{}}
	if t := os.Getenv("VERIF_TIER"); t == "quick" || t == "thorough" {
		r.Tier = t
	}
	args := os.Args[1:]
	for i := 0; i < len(args); i++ {
		switch args[i] {
		case "quick", "thorough":
			r.Tier = args[i]
		case "--replay":
			if i+1 < len(args) {
				r.Replay = args[i+1]
				i++
			}
		}
	}
	if s := os.Getenv("VERIF_SEED"); s != "" {
		if v, err := strconv.ParseInt(strings.TrimSpace(s), 10, 64); err == nil {
			r.Seed = v
		}
	}
	var ff findingsFile
	if buf, err := os.ReadFile(filepath.Join(Root(), "known_findings.json")); err == nil {
		if err := json.Unmarshal(buf, &ff); err != nil {
			fmt.Printf("ERROR: known_findings.json unreadable: %v\n", err)
			os.Exit(3)
		}
	}
	// per-property fragments (same format) next to the main file
	if buf, err := os.ReadFile(filepath.Join(Root(), "known_findings.d", prop+".json")); err == nil {
		var extra findingsFile
		if err := json.Unmarshal(buf, &extra); err != nil {
			fmt.Printf("ERROR: known_findings.d/%s.json unreadable: %v\n", prop, err)
			os.Exit(3)
		}
		ff.Findings = append(ff.Findings, extra.Findings...)
	}
	for _, f := range ff.Findings {
		if f.Property == prop && f.Status == "open" {
			r.open[f.Key] = f
		}
	}
	return r
}

// Quick reports whether the quick tier was requested.
func (r *Run) Quick() bool { return r.Tier != "thorough" }

// Pick returns q in the quick tier and t in the thorough tier.
func (r *Run) Pick(q, t int) int {
	if r.Quick() {
		return q
	}
	return t
}

// Rand returns a PRNG derived from the seed and a stream label.
func (r *Run) Rand(stream string) *rand.Rand {
	h := uint64(1469598103934665603)
	for _, c := range []byte(stream) {
		h ^= uint64(c)
		h *= 1099511628211
	}
	return rand.New(rand.NewSource(r.Seed*1000003 + int64(h&0x7fffffff)))
}

// Report records a violation witnessed by an oracle. key is the narrow structural key of the
// failing shape; if it matches an open known finding the violation is counted as known, otherwise it is
// a fresh violation and a replay file is written. Returns true if fresh.
func (r *Run) Report(key, desc string, witness any) bool {
	r.mu.Lock()
	defer r.mu.Unlock()
	if _, ok := r.open[key]; ok {
		r.knownHits[key]++
		return false
	}
	r.violKeys[key]++
	if r.violKeys[key] > 3 { // keep at most three replay files per key
		r.violations++
		return true
	}
	r.violations++
	r.replayN++
	dir := filepath.Join(Root(), "replay")
	if d := os.Getenv("VERIF_REPLAY_DIR"); d != "" {
		dir = d
	}
	_ = os.MkdirAll(dir, 0o755)
	path := filepath.Join(dir, fmt.Sprintf("%s-%d-%d.json", r.Prop, r.Seed, r.replayN))
	buf, err := json.MarshalIndent(map[string]any{
		"property": r.Prop, "seed": r.Seed, "tier": r.Tier, "key": key, "description": desc, "witness": witness,
	}, "", " ")
	if err != nil {
		buf = []byte(fmt.Sprintf(`{"property":%q,"key":%q,"description":%q,"witness_unencodable":%q}`, r.Prop, key, desc, err.Error()))
	}
	_ = os.WriteFile(path, buf, 0o644)
	fmt.Printf("VIOLATION property=%s replay=%s\n", r.Prop, path)
	fmt.Printf("  key=%s: %s\n", key, desc)
	return true
}

// Inconclusive records a batch whose verdict could not be decided (watchdog, checker timeout).
func (r *Run) Inconclusive(what string) {
	r.mu.Lock()
	defer r.mu.Unlock()
	r.inconclusive = append(r.inconclusive, what)
}

// Note adds a free-text observation to the evidence file.
func (r *Run) Note(format string, a ...any) {
	r.mu.Lock()
	defer r.mu.Unlock()
	if len(r.notes) < 200 {
		r.notes = append(r.notes, fmt.Sprintf(format, a...))
	}
}

// Violations returns the number of fresh violations so far.
func (r *Run) Violations() int {
	r.mu.Lock()
	defer r.mu.Unlock()
	return r.violations
}

// Coverage is what Finish needs from the check; Extra keys are merged into the coverage object.
type Coverage struct {
	Evaluations        int
	DistinctNontrivial int
	Rule               string
	Samples            []any
	Exhaustive         bool
	Extra              map[string]any
	// Floor: minimum DistinctNontrivial for the run to count as having observed something.
	Floor int
}

// Finish writes the evidence file, prints KNOWN-FINDING lines and exits.
// Exit codes: 0 held (or only known findings), 1 fresh violation, 2 inconclusive (observed too little).
func (r *Run) Finish(cov Coverage, assumptions []string) {
	r.mu.Lock()
	defer r.mu.Unlock()
	keys := make([]string, 0, len(r.knownHits))
	for k := range r.knownHits {
		keys = append(keys, k)
	}
	sort.Strings(keys)
	knownList := []any{}
	for _, k := range keys {
		fmt.Printf("KNOWN-FINDING: property=%s %s — %s (seen %d times this run)\n", r.Prop, k, r.open[k].Description, r.knownHits[k])
		knownList = append(knownList, map[string]any{"key": k, "hits": r.knownHits[k]})
	}
	coverage := map[string]any{
		"evaluations":         cov.Evaluations,
		"distinct_nontrivial": cov.DistinctNontrivial,
		"rule":                cov.Rule,
		"samples":             cov.Samples,
	}
	if cov.Samples == nil {
		coverage["samples"] = []any{}
	}
	if cov.Exhaustive {
		coverage["exhaustive"] = true
	}
	for k, v := range cov.Extra {
		coverage[k] = v
	}
	coverage["known_findings_seen"] = knownList
	coverage["inconclusive_batches"] = len(r.inconclusive)
	if len(r.inconclusive) > 0 {
		n := len(r.inconclusive)
		if n > 20 {
			n = 20
		}
		coverage["inconclusive_detail"] = r.inconclusive[:n]
	}
	if len(r.notes) > 0 {
		coverage["notes"] = r.notes
	}
	vk := map[string]int{}
	for k, v := range r.violKeys {
		vk[k] = v
	}
	if len(vk) > 0 {
		coverage["violation_keys"] = vk
	}
	ev := map[string]any{
		"property_id": r.Prop,
		"tier":        r.Tier,
		"seed":        r.Seed,
		"level":       r.Level,
		"coverage":    coverage,
		"assumptions": assumptions,
		"wall_s":      time.Since(r.start).Seconds(),
		"violations":  r.violations,
	}
	if r.Replay == "" {
		dir := filepath.Join(Root(), "evidence")
		if d := os.Getenv("VERIF_EVIDENCE_DIR"); d != "" {
			dir = d
		}
		_ = os.MkdirAll(dir, 0o755)
		buf, _ := json.MarshalIndent(ev, "", " ")
		if err := os.WriteFile(filepath.Join(dir, r.Prop+".json"), append(buf, '\n'), 0o644); err != nil {
			fmt.Printf("ERROR: cannot write evidence: %v\n", err)
			os.Exit(3)
		}
	}
	fmt.Printf("%s %s seed=%d: evaluations=%d distinct_nontrivial=%d violations=%d known=%d inconclusive=%d wall=%.1fs\n",
		r.Prop, r.Tier, r.Seed, cov.Evaluations, cov.DistinctNontrivial, r.violations, len(keys), len(r.inconclusive), time.Since(r.start).Seconds())
	if r.violations > 0 {
		os.Exit(1)
	}
	if r.Replay == "" && cov.DistinctNontrivial < cov.Floor {
		fmt.Printf("INCONCLUSIVE property=%s observed %d distinct non-trivial cases, floor %d\n", r.Prop, cov.DistinctNontrivial, cov.Floor)
		os.Exit(2)
	}
	os.Exit(0)
}

// SampleKeeper keeps the first n samples offered.
type SampleKeeper struct {
	mu sync.Mutex
	N  int
	S  []any
}

func (s *SampleKeeper) Add(v any) {
	s.mu.Lock()
	defer s.mu.Unlock()
	if len(s.S) < s.N {
		s.S = append(s.S, v)
	}
}

// Distinct counts distinct string signatures, thread-safe.
type Distinct struct {
	mu sync.Mutex
	m  map[string]int
}

func (d *Distinct) Add(sig string) {
	d.mu.Lock()
	defer d.mu.Unlock()
	if d.m == nil {
		d.m = map[string]int{}
	}
	d.m[sig]++
}

func (d *Distinct) Len() int {
	d.mu.Lock()
	defer d.mu.Unlock()
	return len(d.m)
}

func (d *Distinct) Map() map[string]int {
	d.mu.Lock()
	defer d.mu.Unlock()
	out := map[string]int{}
	for k, v := range d.m {
		out[k] = v
	}
	return out
}

// LoadReplay reads a replay file written by Report and returns its key, description and witness object.
func (r *Run) LoadReplay() (key, desc string, witness map[string]any, err error) {
	buf, err := os.ReadFile(r.Replay)
	if err != nil {
		return "", "", nil, err
	}
	var doc struct {
		Key         string         `json:"key"`
		Description string         `json:"description"`
		Witness     map[string]any `json:"witness"`
	}
	if err := json.Unmarshal(buf, &doc); err != nil {
		return "", "", nil, err
	}
	return doc.Key, doc.Description, doc.Witness, nil
}

// Remarshal converts a decoded JSON object into a typed value.
func Remarshal(from any, to any) error {
	buf, err := json.Marshal(from)
	if err != nil {
		return err
	}
	return json.Unmarshal(buf, to)
}

// FinishReplay ends a --replay invocation: exit 1 if the oracle reported again, 0 otherwise.
func (r *Run) FinishReplay(what string) {
	r.Finish(Coverage{Evaluations: 1, DistinctNontrivial: 1, Rule: "replay of one stored case: " + what}, nil)
}

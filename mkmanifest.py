#!/usr/bin/env python3
"""Generates /verif/MANIFEST.json from the table below (kept here so the manifest stays consistent)."""
import json, os, subprocess

ROOT = os.path.dirname(os.path.abspath(__file__))

BASELINE_OFF = (
    "cd /repo && for m in distsys omnilink/porcupine pgo/test/files/general/ExprTests.tla.gotests "
    "pgo/test/files/general/IndexingLocals.tla.gotests pgo/test/files/general/NonDetExploration.tla.gotests "
    "pgo/test/files/general/PBFail4_bug125.tla.gotests pgo/test/files/general/ProcedureSpaghetti.tla.gotests "
    "pgo/test/files/general/bug2_124.tla.gotests pgo/test/files/general/bug_119.tla.gotests "
    "pgo/test/files/general/hello.tla.gotests pgo/test/files/gogen/EmptyBlock.tla.gotests "
    "pgo/test/files/gogen/bug_167.tla.gotests systems/dqueue systems/gcounter systems/loadbalancer systems/locksvc "
    "systems/nestedcrdtimpl systems/pbkvs systems/proxy systems/raftkvs systems/raftres systems/replicatedkv "
    "systems/shcounter systems/shopcart; do (cd /repo/$m && MF=$( [ \"$(go env GOWORK)\" = \"\" -o \"$(go env GOWORK)\" = off ] && echo -mod=mod ); "
    "go test $MF -json -vet=off -count=1 -timeout 25m ./...); done"
)

CHECKS = {}

def check(pid, level, text, note, technique, engine, design_ref=None):
    CHECKS[pid] = {
        "property_id": pid,
        "quick_cmd": f"./vcheck {pid} quick",
        "thorough_cmd": f"./vcheck {pid} thorough",
        "evidence_file": f"evidence/{pid}.json",
        "replay_cmd_template": f"./vcheck {pid} --replay {{path}}",
        "engine": engine,
        "level_claimed": {"category": level, "text": text, "design_ref": design_ref or f"DESIGN.md §3 {pid}"},
        "level_note": note,
        "technique": technique,
    }

check("C10", "exploration",
      "The real round-robin FairnessCounter is driven (directly, through real MPCalContexts running hand-built sections, and through the shipped NonDetExploration archetypes) over thousands of PRNG-generated choice structures; an oracle checks range, panic-freedom and the sliding-window exactly-once / leaf-coverage laws on every attempt. Held on the structures generated, not proved for all.",
      "Exactly-once coverage is demanded only for fixed structures (the statement's own condition); prefix-stable structures are checked for leaf coverage per window once every choice point exists; arbitrary id/bound changes for range and panic-freedom only.",
      "runtime monitor: sliding-window permutation oracle over choices returned by the real fairness counter", "direct")

check("C15", "exploration",
      "The shipped locksvc archetypes run (a) one attempt at a time under a seeded scheduler over harness resources implementing the spec's bag network, with monitors for mutual exclusion, grant-only-to-head, grant only to waiting unserved clients and FIFO service after every committed step, and a sample of the recorded traces validated step by step by TLC against the shipped locksvc.tla (Next membership + Safety as written); (b) over the real relaxed mailboxes on TCP with mutual exclusion decided on the logged sequence of hasLock writes. Held on the runs produced (1-6 clients sim, up to 20 TCP).",
      "Sim runs exercise generated Go + distsys core, not production resources (the TCP runs do). Service order is compared with the order in which the server committed its receive of each LockMsg. TLC is used only as an evaluator over recorded traces.",
      "runtime monitoring: invariant monitors at commit boundaries of a serialised schedule + offline trace validation by TLC + commit-point/hasLock event log of real TCP runs", "simsched+tlc+tcp")


check("C08", "exploration",
      "The shipped raftkvs archetypes (5 per server, clients, crashers) run one attempt at a time under seeded scheduler policies (uniform, PCT bursts, partition by starvation, crash-the-leader-after-append, election storms) with per-link FIFO delivery and crash-stop of a minority; after every committed step Go monitors evaluate ElectionSafety, LogMatching, LeaderCompleteness, StateMachineSafety, ApplyLogOK, LeaderAppendOnly and their history-strengthened forms; spec-exact traces are additionally checked by TLC (Next membership and the invariants as written in raftkvs.tla). Real clusters built through raftkvs/bootstrap (relaxed mailboxes, LocalShared, FD, timers, optional badger persistence, -race on every second cluster) run with a crash-stop of the leader/minority and are monitored online at every commit point (H1) with the same, order-robust monitors. Held on the runs produced.",
      "Sim runs do not exercise production resources (cluster runs do). Cluster monitors rely on the commit-point order being a serial order per server (2PL) and on history forms that are insensitive to cross-server interleaving. An election storm on a loaded machine makes a cluster run unproductive for clients but still feeds the monitors. Race reports are listed as observations.",
      "runtime monitoring: invariant monitors at commit boundaries (serialised schedule; real clusters via commit-point hook) + offline TLC evaluation of recorded traces + race detector", "simsched+tlc+cluster")

check("C09", "exploration",
      "Client histories (request taken = call, response delivered = return; unique Put values; open operations kept open) from simulated raftkvs runs (logical time, client timeouts/retransmissions, leader crashes, a policy that holds retransmissions back) and from real bootstrap clusters with crash-stop of a minority are checked per key with porcupine. A non-linearizable history is classified structurally: explained by the at-least-once register built from the recorded transmission counts (known finding: no duplicate suppression) or a fresh violation.",
      "Linearizability is decided on the histories produced only. The at-least-once model lets a retransmitted Put re-apply at any later time, so in runs with many retransmissions stale reads of retransmitted values are attributed to the known finding; runs with few retransmissions keep full power. Porcupine timeouts are inconclusive.",
      "runtime monitoring: client-boundary history + porcupine linearizability checking against a sequential register model", "simsched+cluster+porcupine")

check("C12", "exploration",
      "Generated histories (2-5 replicas, 1-4 elements, up to 40 steps of local updates, merges of current/stale/duplicate/own states, gob round-trips through the transport struct) on the real GCounter, AWORSet and LWWSet; oracles on every visited state and on merges of pairs/triples: commutativity, associativity, idempotence, inflation, identity, gob round-trip, convergence of equal knowledge, and Read against op-based reference models. Failures are shrunk and keyed (type, law, cause).",
      "LWW timestamps are wall-clock: updates are serialised with a strictly advancing clock, a backwards clock step makes the run inconclusive. AWORSet's associativity/convergence/read anomalies are a design limitation recorded as known findings keyed by cause 'design'; the same laws broken by an implementation deviation carry a different key and are reported.",
      "runtime monitoring: algebraic-law and reference-model oracles over generated CRDT histories", "direct")

PROPS = [json.loads(l)["id"] for l in open(os.path.join(ROOT, "properties.jsonl"))]

def main():
    hook_commits = subprocess.run(["git", "-C", "/repo", "log", "--format=%h %s"], capture_output=True, text=True).stdout.splitlines()
    hooks = [l.split()[0] for l in hook_commits if l.split(" ", 1)[1].startswith("verif hooks")]
    m = {
        "version": 1,
        "setup_cmd": "cd /verif && ./setup.sh",
        "hooks": {
            "guard": "verif",
            "enable": "go build -tags verif; the harness workspace /verif/go.work uses /repo's modules in place, so every check rebuilds from /repo's working tree",
            "baseline_off_cmd": BASELINE_OFF,
            "source_commits": hooks,
            "add_only": True,
        },
        "engines": [
            {"name": "simsched", "path": "harness/simsched", "serves_properties": ["C02", "C08", "C09", "C14", "C15", "C16"],
             "kind_free_text": "real generated archetypes gated one attempt at a time by a custom FairnessCounter over harness resources carrying the spec's globals and mapping macros"},
            {"name": "tlc", "path": "harness/tlc", "serves_properties": ["C02", "C08", "C14", "C15", "C16"],
             "kind_free_text": "TLC used as an offline evaluator of recorded traces (Next membership, invariants as written) and constant expressions; never explores"},
            {"name": "common", "path": "harness/common", "serves_properties": PROPS,
             "kind_free_text": "tier/seed, known-findings matching, replay and evidence files, child processes with watchdogs"},
        ],
        "checks": [CHECKS[p] for p in PROPS if p in CHECKS and os.path.isdir(os.path.join(ROOT, "harness/checks", p.lower()))],
        "not_applicable": [],
        "notes": "All checks: ./vcheck <ID> <quick|thorough>; exit 0 held / 1 fresh violation (VIOLATION line) / 2 inconclusive (observed too little) / 3 build failure. Known findings: known_findings.json.",
    }
    claimed = {c["property_id"] for c in m["checks"]}
    for p in PROPS:
        if p not in claimed:
            m["not_applicable"].append({"property_id": p, "reason": "check under construction in this round; not claimed until it is silent on the unchanged tree and mutation-validated"})
    json.dump(m, open(os.path.join(ROOT, "MANIFEST.json"), "w"), indent=1)
    print("claimed:", sorted(claimed))

main()

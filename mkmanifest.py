#!/usr/bin/env python3
"""Generates /verif/MANIFEST.json from the table below (kept here so the manifest stays consistent)."""
import json, os, subprocess

ROOT = os.path.dirname(os.path.abspath(__file__))

BASELINE_OFF = (
    "cd /repo && for m in distsys omnilink/porcupine pgo/test/files/general/ExprTests.tla.gotests "
    "pgo/test/files/general/IndexingLocals.tla.gotests pgo/test/files/general/NonDetExploration.tla.gotests "
    "pgo/test/files/general/PBFail4_bug125.tla.gotests pgo/test/files/general/ProcedureSpaghetti.tla.gotests "
    "pgo/test/files/general/bug2_124.tla.gotests pgo/test/files/general/bug_119.tla.gotests "
    "pgo/test/files/general/hello.tla.gotests pgo/test/files/gogen/EmptyBlock.tla.gotests "
    "pgo/test/files/gogen/bug_167.tla.gotests systems/dqueue systems/gcounter systems/loadbalancer systems/locksvc "
    "systems/nestedcrdtimpl systems/pbkvs systems/proxy systems/raftkvs systems/raftres systems/replicatedkv "
    "systems/shcounter systems/shopcart; do (cd /repo/$m && MF=$( [ \"$(go env GOWORK)\" = \"\" -o \"$(go env GOWORK)\" = off ] && echo -mod=mod ); "
    "go test $MF -json -vet=off -count=1 -timeout 25m ./...); done"
)

CHECKS = {}

def check(pid, level, text, note, technique, engine, design_ref=None):
    CHECKS[pid] = {
        "property_id": pid,
        "quick_cmd": f"./vcheck {pid} quick",
        "thorough_cmd": f"./vcheck {pid} thorough",
        "evidence_file": f"evidence/{pid}.json",
        "replay_cmd_template": f"./vcheck {pid} --replay {{path}}",
        "engine": engine,
        "level_claimed": {"category": level, "text": text, "design_ref": design_ref or f"DESIGN.md §3 {pid}"},
        "level_note": note,
        "technique": technique,
    }

check("C10", "exploration",
      "The real round-robin FairnessCounter is driven (directly, through real MPCalContexts running hand-built sections, and through the shipped NonDetExploration archetypes) over thousands of PRNG-generated choice structures; an oracle checks range, panic-freedom and the sliding-window exactly-once / leaf-coverage laws on every attempt, also after a structure change on the same label (a bound grows or shrinks, an id changes, a choice point is added) once the new structure stays fixed. Held on the structures generated, not proved for all.",
      "Exactly-once coverage is demanded only for fixed structures (the statement's own condition); prefix-stable structures are checked for leaf coverage per window once every choice point exists; arbitrary id/bound changes for range and panic-freedom only.",
      "runtime monitor: sliding-window permutation oracle over choices returned by the real fairness counter", "direct")

check("C15", "exploration",
      "The shipped locksvc archetypes run (a) one attempt at a time under a seeded scheduler over harness resources implementing the spec's bag network, with monitors for mutual exclusion, grant-only-to-head, grant only to waiting unserved clients and FIFO service after every committed step, and a sample of the recorded traces validated step by step by TLC against the shipped locksvc.tla (Next membership + Safety as written); (b) over the real relaxed mailboxes on TCP with mutual exclusion decided on the logged sequence of hasLock writes. Held on the runs produced (1-6 clients sim, up to 20 TCP).",
      "Sim runs exercise generated Go + distsys core, not production resources (the TCP runs do). Service order is compared with the order in which the server committed its receive of each LockMsg. TLC is used only as an evaluator over recorded traces.",
      "runtime monitoring: invariant monitors at commit boundaries of a serialised schedule + offline trace validation by TLC + commit-point/hasLock event log of real TCP runs", "simsched+tlc+tcp")


check("C08", "exploration",
      "The shipped raftkvs archetypes (5 per server, clients, crashers) run one attempt at a time under seeded scheduler policies (uniform, PCT bursts, partition by starvation, crash-the-leader-after-append, election storms) with per-link FIFO delivery and crash-stop of a minority; after every committed step Go monitors evaluate ElectionSafety, LogMatching, LeaderCompleteness, StateMachineSafety, ApplyLogOK, LeaderAppendOnly and their history-strengthened forms; spec-exact traces are additionally checked by TLC (Next membership and the invariants as written in raftkvs.tla). Real clusters built through raftkvs/bootstrap (relaxed mailboxes, LocalShared, FD, timers, optional badger persistence, -race on every second cluster) run with a crash-stop of the leader/minority and are monitored online at every commit point (H1) with the same, order-robust monitors. Held on the runs produced.",
      "Sim runs do not exercise production resources (cluster runs do). Cluster monitors rely on the commit-point order being a serial order per server (2PL) and on history forms that are insensitive to cross-server interleaving. An election storm on a loaded machine makes a cluster run unproductive for clients but still feeds the monitors. Race reports are listed as observations.",
      "runtime monitoring: invariant monitors at commit boundaries (serialised schedule; real clusters via commit-point hook) + offline TLC evaluation of recorded traces + race detector", "simsched+tlc+cluster")

check("C09", "exploration",
      "Client histories (request taken = call, response delivered = return; unique Put values; open operations kept open) from simulated raftkvs runs (logical time, client timeouts/retransmissions, leader crashes, a policy that holds retransmissions back) and from real bootstrap clusters with crash-stop of a minority are checked per key with porcupine. A non-linearizable history is classified structurally: explained by the at-least-once register built from the recorded transmission counts (known finding: no duplicate suppression) or a fresh violation.",
      "Linearizability is decided on the histories produced only. The at-least-once model lets a retransmitted Put re-apply at any later time, so in runs with many retransmissions stale reads of retransmitted values are attributed to the known finding; runs with few retransmissions keep full power. Porcupine timeouts are inconclusive.",
      "runtime monitoring: client-boundary history + porcupine linearizability checking against a sequential register model", "simsched+cluster+porcupine")

check("C12", "exploration",
      "Generated histories (2-5 replicas, 1-4 elements, up to 40 steps of local updates, merges of current/stale/duplicate/own states, gob round-trips through the transport struct) on the real GCounter, AWORSet and LWWSet; oracles on every visited state and on merges of pairs/triples: commutativity, associativity, idempotence, inflation, identity, gob round-trip, convergence of equal knowledge, and Read against op-based reference models. Failures are shrunk and keyed (type, law, cause).",
      "LWW timestamps are wall-clock: updates are serialised with a strictly advancing clock, a backwards clock step makes the run inconclusive. AWORSet's associativity/convergence/read anomalies are a design limitation recorded as known findings keyed by cause 'design'; the same laws broken by an implementation deviation carry a different key and are reported.",
      "runtime monitoring: algebraic-law and reference-model oracles over generated CRDT histories", "direct")


check("C04", "exploration",
      "Random call-graph programs (1-4 procedures, value/ref parameters, locals with initialisers, self and mutual recursion to depth 6, tail calls, ref chains, aborts injected before and after Call/Return/TailCall ran) are compiled to jump/proc tables following the code generator's conventions and run under the real MPCalContext; a reference interpreter of PlusCal call/return semantics runs in lock-step (H1 hooks) and compares .pc, stack depth, every saved frame and every procedure/archetype variable after every commit and before every attempt; a sample of programs is calibrated against the real pcal translator + TLC. The shipped ProcedureSpaghetti tables run with all six process shapes.",
      "Programs are sampled, not exhausted. For tail calls into a different procedure the statement (return, then call) is followed, which differs from pcal's own translation; the calibration uses the matching switch.",
      "runtime monitoring: lock-step reference interpreter over generated programs at commit/abort hooks, calibrated by pcal+TLC", "direct+tlc")

check("C05", "exploration",
      "Generated values (nested to depth 4, printable-ASCII strings) are built into real tla.Values in ~20 different ways and orders, in two child processes (vector clocks off / on via PGO_TRACE_DIR); oracles: Equal is an equivalence agreeing with an independent canonical form, equal implies equal Hash, set/function/hashmap/immutable-map lookups agree with Equal (crafted collisions), gob round-trips in the four shapes the runtime uses (incl. causal wrappers at any depth, VClock, CRDT wire states) yield Equal values, String() parses back (own parser, calibrated by TLC) to the value.",
      "Sequences and functions are distinct kinds in this runtime (the fragment's documented restriction), so the Equal oracle uses a kind-distinguishing canonical form; the print oracle uses the mathematical one. TLC is used only to calibrate the parser on TLC-comparable values.",
      "runtime monitoring: algebraic-law oracles against an independent canonical form over generated values; child processes; TLC-calibrated printer parser", "direct+tlc")

check("C13", "exploration",
      "2-4 real NewCRDT instances (GCounter, AWORSet) on 127.0.0.1 with 1-5 ms tickers, driven through real MPCalContexts (hand-built archetypes and the shipped gcounter/shopcart archetypes); a harness gate holds every writing section open until at least one tick and one incoming merge were counted (H5), then commits or aborts by seed; an offline oracle over counted events checks: broadcast payloads and replies contain nothing in flight or aborted, knowledge monotonicity across aborts, a committed update is dispatched to every connected peer within 3 sender ticks, nothing received stays unmerged, quiescent convergence. -race batches with counter-only hooks.",
      "'Eventually' is restated over counted ticks/broadcasts/merges, never wall-clock. Peers are 'connected' per update (a send timeout excludes that peer for that update only).",
      "runtime monitoring: offline trace-specification checker over hook events (H5) of real CRDT resources + race detector", "direct")

check("C14", "exploration",
      "The shipped pbkvs archetypes run one attempt at a time over harness resources implementing the spec's instantiation (FIFO links, PerfectFD, LeaderElection = smallest live replica, FileSystem cells) with crashes at every mayFail point (seeded crash oracle incl. a mid-replication focus, at least one survivor); after every committed step ConsistencyOK is evaluated as written (Go monitor; TLC evaluates it on spec-exact traces together with Next membership); client histories with unique Put values and logical time are checked with porcupine, classified against the at-least-once register when a Put was retransmitted.",
      "Fail-over is exercised in simulation only: the shipped Go LeaderElection resource is a stub that always answers 1. Sim runs exercise generated Go + distsys core, not production resources.",
      "runtime monitoring: invariant monitor at commit boundaries of a serialised schedule + porcupine on client histories + offline TLC evaluation of recorded traces", "simsched+tlc+porcupine")

check("C18", "exploration",
      "Child processes with PGO_TRACE_DIR set run random systems of 2-5 hand-built archetypes over locals, LocalShared, Input/OutputChan, TCP and relaxed mailboxes (+length), with injected and natural aborts and multi-hop relays, plus the shipped dqueue/locksvc wirings; the JSON logs are parsed back and judged against three independent ground truths (section bodies, wrapper resources, H1/H3 hook data): one event per committed/aborted attempt in program order, element-wise equality, replay of local state incl. oldValue hints, own clock component = event index, reader clock dominates the writer's logged clock for every identified read.",
      "Attempts that end in a hard error or at the Done pseudo-label are neither committed nor aborted and no event is demanded for them. Duplicate TCP deliveries (C06's subject) make positional identification abstain.",
      "runtime monitoring: offline checker over the recorded trace logs against wrapper-resource ground truth", "direct")


check("C17", "fault_enumeration",
      "A hand-built archetype runs on real MPCalContexts with wrapper resources counting Close per instance; the full product of end cause (Done, Stop, assertion, Error label, resource error, never started) x number of concurrent Stop callers (0,1,2,3,5) x Stop timing (before Run, during a section, during commit, during cleanup, after return; realised with H1 gates, no timers) x instant/gated cleanup x resource mix (locals, IncMap with 0-3 elements, HashMap) is enumerated completely, plus second-Run scenarios, free-running jitter scenarios (a share under -race) and, in thorough, TCP mailbox / failure detector / nested-context mixes. Oracles: every Stop returns, Run returns, a second Run is rejected, no commit point after a Stop returned, no Close call or Close completion of a started run after a Stop returned (event-sequence order), Close exactly once per resource and map element, distinct result classes; deadlock is decided structurally (every goroutine parked / wait-for cycle in the dump), never by a deadline.",
      "The Go runtime's own deadlock detector does not fire in cgo-linked binaries, so the 'all goroutines parked' criterion is evaluated by the harness on a stop-the-world snapshot; a bare stall or watchdog expiry is inconclusive. Exhaustive for the enumerated small-mix product only.",
      "runtime monitoring: enumerated lifecycle scenarios with gate hooks, Close-counting wrapper resources, structural deadlock criterion, race detector", "direct")


check("C01", "fault_enumeration",
      "Generated programs (1-4 labels x 1-6 ops: reads, writes of unique values, either, await) are built as jump tables following generated-code conventions and run under the real MPCalContext over 20 resource kinds (locals, indexed locals, IncMap/HashMap, Input/Output/Single/Custom channels, TCP and relaxed mailboxes, LocalShared, Persistent over both, FileSystem, raftkvs PersistentLog, CRDT, TwoPC, nested archetype); every fault position of every program is enumerated (refused operation before each op, false await, empty input, slow nested archetype, failing sibling PreCommit alone / with a slow sibling / late / inside a map; a quarter fire twice). A per-kind abstract model advanced only at commits must match every read of every attempt (incl. the retry), the externally observable state after every attempt (files, badger keys, channels, second sharer, 2PC replica, CRDT peer) and a final probe; wrapper resources assert the PreCommit/Commit/Abort protocol per dirty handle.",
      "Fault positions are exhaustive per generated program; programs and resource mixes are sampled. Documented panics (abort after a relaxed send or SingleOutputChan write) are accepted as failing loudly. Procedures are not generated here (C04).",
      "runtime monitoring: fault-position enumeration with reference-model oracle and protocol-asserting wrapper resources at commit/abort hooks", "direct")


check("C02", "exploration",
      "For every spec/Go pair with an adapter (all systems/* pairs except raftres, and the compiler test pairs) the real generated archetypes run one attempt at a time under seeded schedules over harness resources implementing the spec's mapping macros exactly; every committed step changes the exact global state, and the recorded state sequence is validated by TLC against the shipped translation (for the test pairs: the .expectpcal translated by pcal): each consecutive pair must be a step of Next with every variable pinned, the first state must satisfy Init, and a Go assertion failure must coincide with a spec assertion failure from the same state. Coverage is reported per pair as labels whose steps TLC accepted.",
      "Held on the recorded runs only; reachable pre-states and choice resolutions are sampled by the scheduler. TLC is an evaluator here, not an explorer. A spec-level assertion failure that TLC finds enabled in a visited state (not taken by Go) voids that trace and is noted, not reported. Pairs without an adapter (raftres, which the property does not name) are not claimed. replicated_kv.tla, proxy.tla and load_balancer.tla ship stale TLA+ translation blocks; where the shipped block does not match the PlusCal in the same file the trace is validated against the block regenerated by pcal.",
      "runtime monitoring: recorded executions of the real generated code validated offline, step by step, by TLC against the shipped spec (translation validation over observed traces)", "simsched+tlc")


check("C03", "exploration",
      "Every exported operator of distsys/tla (Module* symbols and the builtins helpers: quantifiers, CHOOSE, comprehension, EXCEPT, cross product, function/record sets, SelectElement...) is applied to a deterministic grid of boundary/ill-typed argument tuples plus seeded random applications and short compositions; every library call (also calls nested in compositions and made from quantifier/EXCEPT bodies) is judged alone against an independent reference evaluator of TLA+/TLC semantics (own canonical value type, explicit 32-bit range checks), with the statement's allowance table (loud ErrTLAType where TLC raises, for sequence/function kind mismatches and EXCEPT outside the domain; CHOOSE only has to be in the set, satisfy the predicate and be a function of the set). Outcome classes: value / loud type error / other panic / hang (suspects are re-run alone in a fresh child). The reference itself is calibrated on a seeded sample against the real TLC every run.",
      "Inputs are sampled (grid + random), not exhausted. A reference-vs-TLC disagreement is a harness bug and makes the batch inconclusive. Known findings (cross-kind comparisons answering instead of raising; tuple vs function-with-domain-1..n treated as different values by = \\in etc.; Seq(S) as permutations) are keyed by (operator, argument-kind signature, outcome class).",
      "runtime monitoring: differential oracle (independent reference evaluator, TLC-calibrated) over generated operator applications in child processes with hang detection", "direct+tlc")

check("C06", "exploration",
      "Generated topologies (1-4 senders x 1-3 receivers as real MPCalContexts running hand-built archetypes through one IncMap) over TCP mailboxes, relaxed mailboxes (+ length), Output->Input channels, raftkvs CustomInChan and SingleOutputChan, with seeded aborts on both sides (after send, after receive, failing sibling PreCommit), 5-50 ms timeouts, tiny receive buffers with pausing receivers, large messages and a byte-level proxy that delays but never drops/reorders/closes; one case per child process, every sixth under -race. Offline oracle over unique ids <<sender, section, attempt, k>>: per link exactly-once FIFO of committed sends vs committed receives, delivery after the sender's commit point, whole contiguous TCP batches, redelivery order after aborts, reported length <= pending; quiescence is counted (kernel socket queues empty), never timed.",
      "Connection failures are outside the statement; timeouts are inside. Three timeout-induced defects (duplicate batch after commit-ack timeout, batch overtaken after redial, relaxed message overtaken after write-timeout redial) are open known findings recognised structurally from the witness plus the library's own timeout log lines; any other loss/duplicate/reorder is fresh.",
      "runtime monitoring: offline exactly-once/FIFO checker over recorded send/receive events with unique ids, fault and delay injection via proxy and hooks, race detector", "direct")

check("C07", "exploration",
      "2-8 real contexts run a hand-built sharer archetype over 1-6 LocalSharedManagers (directly, behind Persistent with badger, behind IncMap) holding list/function/register/account variables; random and deliberately opposite access orders, read-only sections, lock timeouts 1-50 ms, perturbation at H1 commit/abort points while locks are held, injected aborts while holding locks, a GetState observer; one case per child. Oracles: read-your-writes and repeatable reads within a section, version-chain consistency, no aborted write visible, ww/wr/rw + real-time dependency graph acyclic (witness: shortest cycle), the commit-point sequence replays as a serial order, conservation of a constant sum, leaked locks, and a logical deadlock criterion (H8 events show every sharer inside tryEnsureLock in a wait-for cycle and goroutine states show each blocked without a timeout alternative). -race batches decide on races on the protected fields only.",
      "Duration-based deadlock criteria proved unsound on a loaded machine and were replaced by goroutine-state tests; a bare stall is inconclusive.",
      "runtime monitoring: serializability checking over recorded section histories (dependency graph + commit-order replay) with lock hooks and the race detector", "direct")

check("C16", "exploration",
      "For every other generated system with an adapter (dqueue, loadbalancer, proxy with perfect and practical FD, shcounter, gcounter, shopcart, nestedcrdtimpl, replicatedkv) the shipped archetypes run one attempt at a time under eight scheduling policies over harness resources implementing the spec's mapping macros (unique ids where the spec uses constants), with Go monitors after every committed step: no spec assertion fails, exactly-once in-order delivery to requesting consumers and conservation (dqueue), BuffersOk and exactly one answer per request (loadbalancer), ProxyOK and its history form (proxy, perfect FD), final value = NUM_NODES (shcounter), equal knowledge => equal read and monotonic counters (CRDT systems); spec-exact traces are validated by TLC with the specs' invariants as written. Real TCP runs of dqueue, loadbalancer and proxy (with backend crashes) are judged by the same counting oracles at the input/output channels.",
      "replicatedkv has no wiring or tests in-tree and is covered in simulation only (three spec-level findings with two clients are open known findings). proxy.tla's shipped TLA+ block is stale w.r.t. its own PlusCal (validated against the regenerated translation as well). The shopcart AWORSet spec-level anomaly (equal knowledge, unequal state after removes) is an open known finding. Liveness properties are restated at termination.",
      "runtime monitoring: invariant and conservation monitors at commit boundaries of serialised schedules + offline TLC evaluation + counting oracles on real TCP runs", "simsched+tlc+tcp")

check("C19", "exploration",
      "Generated scenarios run the real Monitor (ListenAndServe, RunArchetype, Close) and real SingleFailureDetectors on 127.0.0.1: archetypes ending by Done / assertion / resource error / panic / Stop, all orders of monitor start, archetype start and end, detector start, monitor Close, and 'unreachable' realised by a harness TCP proxy cutting listener and established connections (also flaps, blackhole, slow replies); poll interval 2-20 ms, timeouts 1-50 ms or 2 s. An offline oracle over H4 events (monitor state changes, poll start/end with outcome, ReadValue call/return, one sequence counter) checks completeness, accuracy (generous-timeout configurations only), read stability and counted-time bounds (ReadValue blocks at most one interval, measured in harness ticks, reproduced twice before reporting); a share of scenarios under -race.",
      "'Within a bounded number of polling intervals' is restated as order statements over counted events. A closed Monitor whose established connections still answer counts as reachable; verdicts on unreachability use the proxy-cut case. Up to four unsuccessful polls before the first success are tolerated.",
      "runtime monitoring: offline trace-specification checker over failure-detector hook events with fault injection via TCP proxy, race detector", "direct")


check("C11", "exploration",
      "One child process per case runs 2-7 real 2PC replicas over the package's LocalReplicaHandle, an in-process handle, or the real RPCReplicaHandle on 127.0.0.1, optionally behind a harness transport that delays, reorders, duplicates, drops and times out requests (incl. targeted overtaking of an Abort/Commit by the proposer's next message), with 1-6 real writer contexts (the shipped shcounter.ANode and hand-built increment / list-append / register archetypes, read-only sections, blind writes, failing sibling PreCommit). Oracles over H7 events: value per version single-valued across replicas, versions strictly increasing per replica, at most one winner per version, a committed section read the version just below the one it won, porcupine one-copy linearizability, final value = committed sections, per-message progress rule (an Abort of S for v at a replica holding S's pre-commit for v leaves it initial), no pre-commit left once nothing runs or is in flight; a panic of the code under test is a violation.",
      "Progress is decided on counted events and a logical fixpoint, never on time; exceeding the proposal bound is inconclusive. Open known findings: the stale-message filter (identity-keyed, bypassed by LocalReplicaHandle, not atomic) allowing two winners; retry abandoned after message loss; two race-batch-only symptoms; one unexplained Commit-state crash.",
      "runtime monitoring: offline checker over 2PC hook events + porcupine on section histories, fault-injecting transport, race detector", "direct")

PROPS = [json.loads(l)["id"] for l in open(os.path.join(ROOT, "properties.jsonl"))]

def main():
    hook_commits = subprocess.run(["git", "-C", "/repo", "log", "--format=%h %s"], capture_output=True, text=True).stdout.splitlines()
    hooks = [l.split()[0] for l in hook_commits if l.split(" ", 1)[1].startswith("verif hooks")]
    m = {
        "version": 1,
        "setup_cmd": "cd /verif && ./setup.sh",
        "hooks": {
            "guard": "verif",
            "enable": "go build -tags verif; the harness workspace /verif/go.work uses /repo's modules in place, so every check rebuilds from /repo's working tree",
            "baseline_off_cmd": BASELINE_OFF,
            "source_commits": hooks,
            "add_only": True,
        },
        "engines": [
            {"name": "simsched", "path": "harness/simsched", "serves_properties": ["C02", "C08", "C09", "C14", "C15", "C16"],
             "kind_free_text": "real generated archetypes gated one attempt at a time by a custom FairnessCounter over harness resources carrying the spec's globals and mapping macros"},
            {"name": "tlc", "path": "harness/tlc", "serves_properties": ["C02", "C08", "C14", "C15", "C16"],
             "kind_free_text": "TLC used as an offline evaluator of recorded traces (Next membership, invariants as written) and constant expressions; never explores"},
            {"name": "adapters", "path": "harness/adapters", "serves_properties": ["C02", "C08", "C09", "C14", "C15", "C16"],
             "kind_free_text": "one adapter per spec/Go pair (all systems/* except raftres, and the compiler test pairs): constants, spec globals, process tables, Go-local to TLA+ renaming, mapping macros, Go-side monitors; step-wise TLC validator for the .expectpcal artefacts"},
            {"name": "cluster", "path": "harness/cluster", "serves_properties": ["C08", "C09", "C14"],
             "kind_free_text": "real deployments through the repository's bootstrap code over 127.0.0.1 with online commit-point monitors (H1) and client-boundary histories"},
            {"name": "linz", "path": "harness/linz", "serves_properties": ["C09", "C14"],
             "kind_free_text": "porcupine per-key register model, at-least-once register model, classification of non-linearizable histories"},
            {"name": "refval", "path": "harness/refval", "serves_properties": ["C03"],
             "kind_free_text": "independent reference evaluator of TLA+/TLC value semantics, calibrated against TLC"},
            {"name": "common", "path": "harness/common", "serves_properties": PROPS,
             "kind_free_text": "tier/seed, known-findings matching, replay and evidence files, child processes with watchdogs"},
        ],
        "checks": [CHECKS[p] for p in PROPS if p in CHECKS and os.path.isdir(os.path.join(ROOT, "harness/checks", p.lower()))],
        "not_applicable": [],
        "notes": "All checks: ./vcheck <ID> <quick|thorough>; exit 0 held / 1 fresh violation (VIOLATION line) / 2 inconclusive (observed too little) / 3 build failure. Known findings: known_findings.json.",
    }
    claimed = {c["property_id"] for c in m["checks"]}
    for p in PROPS:
        if p not in claimed:
            m["not_applicable"].append({"property_id": p, "reason": "check under construction in this round; not claimed until it is silent on the unchanged tree and mutation-validated"})
    json.dump(m, open(os.path.join(ROOT, "MANIFEST.json"), "w"), indent=1)
    print("claimed:", sorted(claimed))

main()

#!/bin/bash
# usage: crossrun.sh <seeded-name> <CHECK-ID>...   — applies /verif/seeded/<name>/patch.diff to a fresh scratch worktree
# of /repo HEAD and runs the quick tier of each given check against it; logs to seeded/<name>/cross_<ID>.log
NAME=$1; shift
WT=/tmp/xr-$NAME
git -C /repo worktree remove --force $WT 2>/dev/null; rm -rf $WT
git -C /repo worktree add -q --detach $WT HEAD || exit 1
git -C $WT apply /verif/seeded/$NAME/patch.diff || { echo "$NAME: PATCH DOES NOT APPLY"; git -C /repo worktree remove --force $WT; exit 2; }
for ID in "$@"; do
  VERIF_REPO=$WT ./vcheck $ID quick > seeded/$NAME/cross_$ID.log 2>&1; rc=$?
  echo "$NAME x $ID: exit=$rc violations=$(grep -c '^VIOLATION' seeded/$NAME/cross_$ID.log) keys: $(grep 'key=' seeded/$NAME/cross_$ID.log | sed 's/^.*key=//' | cut -d' ' -f1 | cut -c1-90 | sort | uniq -c | sort -rn | head -3 | tr '\n' ';')"
done
git -C /repo worktree remove --force $WT

#!/bin/bash
# usage: sweep.sh <seed> [tier] [ids...]  — runs checks sequentially, prints exit code, wall time and VIOLATION/INCONCLUSIVE lines
seed=$1; tier=${2:-quick}; shift; shift
ids="$@"; [ -z "$ids" ] && ids=$(python3 -c "import json;print(' '.join(c['property_id'] for c in json.load(open('/verif/MANIFEST.json'))['checks']))")
cd /verif
for id in $ids; do
  t0=$(date +%s)
  VERIF_SEED=$seed VERIF_EVIDENCE_DIR=/tmp/sweep-ev-$seed ./vcheck $id $tier > /tmp/sweep-$seed-$id.log 2>&1; rc=$?
  t1=$(date +%s)
  echo "$id seed=$seed $tier exit=$rc wall=$((t1-t0))s $(grep -c '^VIOLATION' /tmp/sweep-$seed-$id.log) violations $(grep -c '^KNOWN-FINDING' /tmp/sweep-$seed-$id.log) known; $(grep -h 'INCONCLUSIVE' /tmp/sweep-$seed-$id.log | head -1 | cut -c1-120)"
done

#!/bin/bash
# validates MANIFEST.json and every evidence file against the schemas
python3-vt - <<'PY'
import json,glob,jsonschema,sys
ok=True
m=json.load(open('/verif/MANIFEST.json'))
jsonschema.validate(m,json.load(open('/root/.vp/MANIFEST.schema.json')))
es=json.load(open('/root/.vp/EVIDENCE.schema.json'))
for c in m['checks']:
    f='/verif/'+c['evidence_file']
    try:
        jsonschema.validate(json.load(open(f)),es)
    except Exception as e:
        ok=False; print('BAD',f,str(e)[:300])
ids=[json.loads(l)['id'] for l in open('/verif/properties.jsonl')]
claimed={c['property_id'] for c in m['checks']}|{n['property_id'] for n in m.get('not_applicable',[])}
print('unaccounted:',[i for i in ids if i not in claimed])
print('ok' if ok else 'FAIL')
PY

#!/bin/bash
# usage: seedtest.sh <PROP> <seed-worktree> <name> [tier]
# Confirms a seeded change (demo fails with it / passes without it, on a fresh worktree of /repo HEAD) and runs
# the property's check against it. Stores the change under /verif/seeded/<name>/.
P=$1; SRC=$2; NAME=$3; TIER=${4:-quick}
WT=/tmp/st-$NAME
D=/verif/seeded/$NAME
mkdir -p $D
cp $SRC/_seeded/patch.diff $D/patch.diff
rm -rf $D/demo; cp -r $SRC/_seeded/demo $D/demo
cp $SRC/_seeded/README.md $D/README.agent.md 2>/dev/null
git -C /repo worktree remove --force $WT 2>/dev/null; rm -rf $WT
git -C /repo worktree add -q --detach $WT HEAD || exit 1
mkdir -p $WT/_seeded && cp -r $D/demo $WT/_seeded/demo && cp $D/patch.diff $WT/_seeded/patch.diff
cd $WT
echo "== demo WITHOUT change"; (bash _seeded/demo/run.sh > $D/demo_without.log 2>&1; echo "exit=$?" | tee -a $D/demo_without.log)
git apply _seeded/patch.diff || { echo "PATCH DOES NOT APPLY to HEAD"; exit 2; }
echo "== build WITH change"; (cd distsys && GOPROXY=off go build ./... ) && echo build-ok
echo "== demo WITH change"; (bash _seeded/demo/run.sh > $D/demo_with.log 2>&1; echo "exit=$?" | tee -a $D/demo_with.log)
cd /verif
echo "== check $P $TIER against the change"
VERIF_REPO=$WT ./vcheck $P $TIER > $D/check_$TIER.log 2>&1; rc=$?
echo "check exit=$rc"; grep -c "^VIOLATION" $D/check_$TIER.log; grep "key=" $D/check_$TIER.log | sed 's/^ *key=//' | cut -c1-200 | sort | uniq -c | sort -rn | head -5
echo "$rc" > $D/check_$TIER.exit
git -C /repo worktree remove --force $WT
